#!/usr/bin/env python3
# usage: seed_meta.py <seed-id> <property> <detected: yes|no|partial> <harness/tier> <needs...>
import json,sys,os
sid,prop,det,by=sys.argv[1:5]
needs=' '.join(sys.argv[5:])
d='/verif/seeded/'+sid
notes=open(d+'/NOTES.md').read() if os.path.exists(d+'/NOTES.md') else ''
meta={"id":sid,"property":prop,"breaks":prop,"needs_to_manifest":needs,
 "origin":"written by an independent sub-agent that saw only the property text and a scratch worktree of /repo",
 "confirmed_by_me":"applied patch.diff to /repo (git apply), `go build ./...` ok, full `go test -vet=off -count=1 ./...` passes, the demonstration test fails with the patch and passes without it; /repo restored with git checkout",
 "detected":det,"detected_by":by}
json.dump(meta,open(d+'/meta.json','w'),indent=1)
print(sid,det,by)
