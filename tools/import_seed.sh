#!/bin/bash
# usage: tools/import_seed.sh <worktree> <seed-id> <property>
set -eu
wt=$1; id=$2; prop=$3
d=/verif/seeded/$id
mkdir -p $d
cp $wt/_deliver/patch.diff $d/patch.diff
cp $wt/_deliver/*_test.go $d/ 2>/dev/null || true
cp $wt/_deliver/NOTES.md $d/NOTES.md 2>/dev/null || true
ls $d
