#!/bin/bash
# usage: tools/seed_round.sh <worktree> <seed-id> <property> [tier]
# imports a sub-agent's deliverable, confirms it in a fresh scratch worktree, then runs the check against it
set -u
wt=$1; id=$2; prop=$3; tier=${4:-quick}
/verif/tools/import_seed.sh $wt $id $prop >/dev/null
pkg=$(head -1 /verif/seeded/$id/NOTES.md | sed -n 's/^pkgdir: *//p' | tr -d '`')
[ -z "$pkg" ] && { echo "no pkgdir in NOTES.md"; exit 2; }
echo "== confirm $id (pkg $pkg)"
/verif/tools/confirm_seed.sh $id $pkg
echo "== check $prop $tier"
/verif/tools/try_seed.sh /verif/seeded/$id/patch.diff $prop $tier
