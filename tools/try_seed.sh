#!/bin/bash
# usage: tools/try_seed.sh <patch.diff> <property> [tier] [extra gosym args]
# Applies a seeded change to /repo, checks that it builds and passes the suite, runs the property's
# check, then restores /repo. Prints the check's tail.
set -u
patch=$1; prop=$2; tier=${3:-quick}; shift; shift; shift || true
export GOFLAGS=-mod=mod GOPROXY=off GOSUMDB=off GOTOOLCHAIN=local
cd /repo || exit 2
git diff --quiet || { echo "repo not clean"; exit 2; }
git apply "$patch" || { echo "patch does not apply"; exit 2; }
trap 'git -C /repo checkout -- . ; git -C /repo clean -fdq -- . 2>/dev/null' EXIT
go build ./... 2>&1 | tail -3
echo "suite: $(go test -vet=off -count=1 ./... 2>&1 | grep -c '^FAIL\|^---') failing lines"
cd /verif && timeout 1500 ./bin/gosym run "$prop" --tier "$tier" --no-evidence "$@" 2>&1 | grep "VIOLATION\|KNOWN\|MACHINERY\|^$prop\|case=" | cut -c1-260 | head -14
