#!/bin/bash
# usage: tools/confirm_seed.sh <seed-id> <pkgdir>  : confirms build, suite, demo with/without the change in a scratch worktree
set -u
id=$1; pkg=$2
export GOFLAGS=-mod=mod GOPROXY=off GOSUMDB=off GOTOOLCHAIN=local
wt=/tmp/confirm-$id
rm -rf $wt; git -C /repo worktree add -q --detach $wt HEAD || exit 2
cd $wt
cp /verif/seeded/$id/*_test.go $pkg/ 2>/dev/null
demo=$(ls /verif/seeded/$id/*_test.go | head -1 | xargs basename)
echo "demo without change: $(go test -vet=off -count=1 ./$pkg/ 2>&1 | tail -1)"
git apply /verif/seeded/$id/patch.diff || echo "APPLY FAILED"
go build ./... 2>&1 | tail -2
rm $pkg/$demo
echo "suite with change: $(go test -vet=off -count=1 ./... 2>&1 | grep -c '^FAIL') FAIL lines"
cp /verif/seeded/$id/$demo $pkg/
echo "demo with change: $(go test -vet=off -count=1 ./$pkg/ 2>&1 | tail -1)"
cd /; git -C /repo worktree remove --force $wt
