#!/usr/bin/env python3
# Regenerates /verif/MANIFEST.json from the table below (kept in one place so it stays valid).
import json, os
V='/verif'
props=[json.loads(l) for l in open(V+'/properties.jsonl')]
CHECKS={}
def chk(pid,text,note,tech):
    CHECKS[pid]={"property_id":pid,"quick_cmd":"./bin/gosym run %s --tier quick"%pid,"thorough_cmd":"./bin/gosym run %s --tier thorough"%pid,
    "evidence_file":"/verif/evidence/%s.json"%pid,"replay_cmd_template":"./bin/gosym replay {path}","engine":"gosym",
    "level_claimed":{"category":"model_checking","text":text,"design_ref":"DESIGN.md section 6 "+pid},"level_note":note,"technique":tech}
TB="trusted: go/ssa (x/tools v0.29.0) translation of the current /repo tree, the gosym executor (fork of x/tools ssa/interp extended with symbolic values), z3 4.8.12; bounds and stubs as listed in the evidence file"
exec(open(V+'/tools/checks_table.py').read())
NA={}
exec(open(V+'/tools/na_table.py').read())
m={
 "version":1,
 "setup_cmd":"cd /verif/engine && GOFLAGS=-mod=mod GOPROXY=off GOSUMDB=off GOTOOLCHAIN=local go build -o ../bin/gosym ./cmd/gosym",
 "hooks":{"guard":"verif","enable":"no hooks in /repo: harnesses are injected with go/packages Overlay (symbolic run) and go test -overlay (native replay); nothing is written into /repo","baseline_off_cmd":"cd /repo && go test -mod=mod -vet=off -count=1 ./...","source_commits":[],"add_only":True},
 "engines":[{"name":"gosym","path":"engine","serves_properties":sorted(CHECKS),"kind_free_text":"path-forking bounded symbolic executor for Go SSA (golang.org/x/tools/go/ssa v0.29.0) with z3 as the deciding step; pure-callee ITE summaries; counterexamples replayed natively with go test -overlay before a VIOLATION is reported"}],
 "checks":[CHECKS[k] for k in sorted(CHECKS)],
 "not_applicable":[],
 "notes":"Every check rebuilds its SMT encoding from /repo's working tree on each run. Exit 0 = all obligations unsat within the stated bounds; exit 1 = natively reproduced counterexample (VIOLATION line); exit 2 = machinery problem / inconclusive (never reported as success). See DESIGN.md."
}
for p in props:
    if p['id'] not in CHECKS:
        m["not_applicable"].append({"property_id":p['id'],"reason":NA.get(p['id'],"check not built yet in this session (see DESIGN.md section 6); not registered")})
json.dump(m,open(V+'/MANIFEST.json','w'),indent=1)
print("checks:",sorted(CHECKS),"na:",[x['property_id'] for x in m['not_applicable']])
