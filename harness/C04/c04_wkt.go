package wkt

import (
	"strconv"

	"github.com/paulmach/orb"
)

// Numbers are opaque values with a symbolic %g spelling (see vfWktNum); what is checked is orb's
// own contribution: writing the text and tokenising it back into the same numbers in the same
// nesting, for every spelling, keyword case and permitted whitespace.

func vfWktNormal(g orb.Geometry) orb.Geometry {
	switch g := g.(type) {
	case orb.Ring:
		return orb.Polygon{g}
	case orb.Bound:
		return g.ToPolygon()
	case orb.Collection:
		c := make(orb.Collection, 0, len(g))
		for _, m := range g {
			c = append(c, vfWktNormal(m))
		}
		return c
	}
	return g
}

func vfWktSame(id string, got, want orb.Geometry) {
	vfAssert(id+"-structure", vfSig(got) == vfSig(want))
	a, b := vfCoords(got), vfCoords(want)
	vfAssert(id+"-ncoords", len(a) == len(b))
	for i := range a {
		if i < len(b) {
			vfAssert(id+"-number", a[i] == b[i])
		}
	}
}

var vfTokLens = []int{1, 3, 5, 6}

// shapes whose text form is defined: no nil-vs-empty distinction in WKT, so skip typed nils
func vfWktShapes() []vfShapeDef {
	// a bound with no order assumed between Min and Max (orb calls Min > Max "empty"; it still has four
	// corners and an equivalent polygon); first in the list so that they are in the quick tier
	out := []vfShapeDef{
		{"Bound(any corners)", true, func(g *vfGen) orb.Geometry { return orb.Bound{Min: g.pt(), Max: g.pt()} }},
		{"Collection[Point,Bound(any corners)]", true, func(g *vfGen) orb.Geometry {
			return orb.Collection{g.pt(), orb.Bound{Min: g.pt(), Max: g.pt()}}
		}},
	}
	for _, s := range vfShapes() {
		switch s.name {
		case "Collection[Point,MultiPoint(nil)]", "MultiLineString[[nil],[1]]", "MultiPolygon[nil]", "Polygon[[nil]]":
			continue
		}
		out = append(out, s)
	}
	return out
}

func vfWktCount(tier int) int {
	n := 0
	for _, s := range vfWktShapes() {
		if s.quick || tier > 0 {
			n++
		}
	}
	return n
}

func vfIsLetter(b byte) bool { return (b >= 'A' && b <= 'Z') || (b >= 'a' && b <= 'z') }

// vfRespell changes keyword case (a symbolic bit per letter) and inserts a symbolic whitespace
// byte after every '(' and ',' , before every ')' and at both ends.
func vfRespell(text string, space bool, cases bool) string {
	var out []byte
	// one symbolic whitespace byte (space, tab or newline) used at every insertion point, and one
	// symbolic case bit applied alternately to the letters: per-position symbols would multiply
	// the paths by 3 resp. 2 per position without exercising other code
	w := vfU8("ws")
	vfAssume(vfOr(vfOr(w == ' ', w == '\t'), w == '\n'))
	ws := func() byte { return w }
	bit := vfU8("case") & 1
	nletter := 0
	if space {
		out = append(out, ws())
	}
	for i := 0; i < len(text); i++ {
		b := text[i]
		if !vfIsConcrete(b) {
			out = append(out, b)
			continue
		}
		if space && b == ')' {
			out = append(out, ws())
		}
		if cases && vfIsLetter(b) {
			// to lower case when the bit is set: upper-case letters only in the produced text
			nletter++
			if nletter%2 == 0 {
				out = append(out, b+32*bit)
			} else {
				out = append(out, b+32*(1-bit))
			}
		} else {
			out = append(out, b)
		}
		if space && (b == '(' || b == ',') {
			out = append(out, ws())
		}
	}
	if space {
		out = append(out, ws())
	}
	return string(out)
}

func vfC04RoundTrip_N(tier int) int { return vfWktCount(tier) * len(vfTokLens) * 3 }
func vfC04RoundTrip_Label(c int) string {
	v := c % 3
	c /= 3
	return vfWktShapes()[c/len(vfTokLens)].name + " numlen=" + strconv.Itoa(vfTokLens[c%len(vfTokLens)]) + " spelling=" + []string{"as-produced", "whitespace", "case"}[v]
}

func vfC04RoundTrip(c int) {
	variant := c % 3
	c /= 3
	g := vfWktShapes()[c/len(vfTokLens)].mk(&vfGen{mode: 3, tok: vfTokLens[c%len(vfTokLens)]})
	text := MarshalString(g)
	vfReach("roundtrip")
	switch variant {
	case 1:
		text = vfRespell(text, true, false)
	case 2:
		text = vfRespell(text, false, true)
	}
	got, err := Unmarshal(text)
	vfAssert("parse-no-error", err == nil)
	if err == nil {
		vfWktSame("roundtrip", got, vfWktNormal(g))
	}
}

// typed parsers accept exactly their own kind
var vfTypedNames = []string{"Point", "MultiPoint", "LineString", "MultiLineString", "Polygon", "MultiPolygon", "Collection"}

func vfC04Typed_N(tier int) int { return vfWktCount(0) * len(vfTypedNames) }
func vfC04Typed_Label(c int) string {
	return vfWktShapes()[c/len(vfTypedNames)].name + " with Unmarshal" + vfTypedNames[c%len(vfTypedNames)]
}

func vfC04Typed(c int) {
	g := vfWktShapes()[c/len(vfTypedNames)].mk(&vfGen{mode: 3, tok: 3})
	text := MarshalString(g)
	want := vfWktNormal(g)
	var got orb.Geometry
	var err error
	var own bool
	switch c % len(vfTypedNames) {
	case 0:
		got, err = UnmarshalPoint(text)
		_, own = want.(orb.Point)
	case 1:
		got, err = UnmarshalMultiPoint(text)
		_, own = want.(orb.MultiPoint)
	case 2:
		got, err = UnmarshalLineString(text)
		_, own = want.(orb.LineString)
	case 3:
		got, err = UnmarshalMultiLineString(text)
		_, own = want.(orb.MultiLineString)
	case 4:
		got, err = UnmarshalPolygon(text)
		_, own = want.(orb.Polygon)
	case 5:
		got, err = UnmarshalMultiPolygon(text)
		_, own = want.(orb.MultiPolygon)
	case 6:
		got, err = UnmarshalCollection(text)
		_, own = want.(orb.Collection)
	}
	vfReach("typed")
	if own {
		vfAssert("typed-accepts-own-kind", err == nil)
		if err == nil {
			vfWktSame("typed", got, want)
		}
	} else {
		vfAssert("typed-rejects-other-kind", err == ErrIncorrectGeometry)
	}
}

// ---- special values: concrete coordinates through the real number formatting and parsing ----
// The symbolic harnesses treat a number as an opaque value with a symbolic spelling; the values
// below are the ones whose spelling or parse is special (signed zero, %g's switch to exponent
// form at 1e-5 / 1e21 (1e6 for the shortest form), integers around 2^31, 2^53 and 2^63, 15/16
// digit integers, extremes and subnormals). They run concretely through MarshalString/Unmarshal
// and the result must be bit-identical.
var vfSpecials = []float64{
	0, vfNegZero(), 1, -1, 0.1, 0.00001, 0.0001, 0.000011, 123456, 999999, 1000000, 1234567,
	1e20, 1e21, 1e22, 1.7976931348623157e308, -1.7976931348623157e308, 5e-324, 2.2250738585072014e-308,
	0.30000000000000004, 1.0 / 3, 9007199254740993, 9007199254740992, -9223372036854775808, 9223372036854775807,
	4294967296, 2147483648, -2147483649, 123456789012345, 1234567890123456, 100000000000000, 999999999999999,
	-0.5, 1e-7, 12345.678, -180, 179.99999999999997, 85.0511287798066,
}

func vfNegZero() float64 { z := 0.0; return -z }

// the bytes returned by Marshal belong to the caller: a later Marshal / MarshalString must not change them
func vfC04Owned_N(tier int) int     { return 3 }
func vfC04Owned_Label(c int) string { return []string{"same length", "shorter second text", "longer second text"}[c] }

func vfC04Owned(c int) {
	a := orb.LineString{{1.5, -2.25}, {3, 4}, {5, 6}}
	var b orb.Geometry
	switch c {
	case 0:
		b = orb.LineString{{7.5, -8.25}, {9, 1}, {2, 3}}
	case 1:
		b = orb.Point{9, 9}
	default:
		b = orb.MultiLineString{{{1, 1}, {2, 2}}, {{3, 3}, {4, 4}, {5, 5}, {6, 6}}}
	}
	ta := Marshal(a)
	saved := string(ta)
	vfReach("owned")
	tb := Marshal(b)
	vfAssert("marshal-bytes-unchanged-by-later-marshal", string(ta) == saved)
	_ = MarshalString(b)
	vfAssert("marshal-bytes-unchanged-by-later-marshalstring", string(ta) == saved)
	ga, err := Unmarshal(string(ta))
	vfAssert("first-text-still-parses", err == nil)
	if err == nil {
		vfWktSame("first-text-roundtrip", ga, a)
	}
	gb, err := Unmarshal(string(tb))
	vfAssert("second-text-parses", err == nil)
	if err == nil {
		vfWktSame("second-text-roundtrip", gb, b)
	}
}

func vfC04Special_N(tier int) int { return len(vfSpecials) * 3 }
func vfC04Special_Label(c int) string {
	return "value=" + strconv.FormatFloat(vfSpecials[c/3], 'g', -1, 64) + " in " + []string{"Point", "LineString", "Collection[MultiPolygon]"}[c%3]
}

func vfC04Special(c int) {
	v := vfSpecials[c/3]
	var g orb.Geometry
	switch c % 3 {
	case 0:
		g = orb.Point{v, 7}
	case 1:
		g = orb.LineString{{1, v}, {v, -v}}
	default:
		g = orb.Collection{orb.MultiPolygon{{{{v, 0}, {1, v}, {v, v}, {v, 0}}}}, orb.Point{-v, v}}
	}
	text := MarshalString(g)
	vfReach("special")
	got, err := Unmarshal(text)
	vfAssert("special-parse-no-error", err == nil)
	if err != nil {
		return
	}
	vfAssert("special-structure", vfSig(got) == vfSig(g))
	a, b := vfCoords(got), vfCoords(g)
	vfAssert("special-ncoords", len(a) == len(b))
	for i := range a {
		if i < len(b) {
			vfAssert("special-bit-identical", vfSameBits(a[i], b[i]))
		}
	}
}
