package tilecover

import (
	"strconv"

	"github.com/paulmach/orb"
	"github.com/paulmach/orb/maptile"
)

// ---- MergeUp / MergeUpPartial: symbolic membership of 8 tiles, the other quads per case ----

func vfQuad(px, py uint32) []maptile.Tile {
	return []maptile.Tile{{X: 2 * px, Y: 2 * py, Z: 2}, {X: 2*px + 1, Y: 2 * py, Z: 2}, {X: 2*px + 1, Y: 2*py + 1, Z: 2}, {X: 2 * px, Y: 2*py + 1, Z: 2}}
}

func vfBuildSet(c int) (maptile.Set, []maptile.Tile) {
	set := make(maptile.Set)
	var in []maptile.Tile
	k := 0
	for q := uint32(0); q < 4; q++ {
		tiles := vfQuad(q%2, q/2)
		mode := 2 // symbolic
		if q >= 2 {
			mode = (c >> (q - 2)) & 1 // quads 2,3: empty or full per case
		}
		for _, t := range tiles {
			var present bool
			switch mode {
			case 0:
				present = false
			case 1:
				present = true
			default:
				present = vfBool("in" + strconv.Itoa(k))
				k++
			}
			if present {
				set[t] = true
				in = append(in, t)
			}
		}
	}
	return set, in
}

func vfArea(t maptile.Tile, zmax maptile.Zoom) int { return 1 << (2 * uint(zmax-t.Z)) }

func vfC14MergeUp_N(tier int) int { return 4 * 3 }
func vfC14MergeUp_Label(c int) string {
	return "other-quads=" + strconv.Itoa(c%4) + " min-zoom=" + strconv.Itoa(c/4)
}

func vfC14MergeUp(c int) {
	set, in := vfBuildSet(c % 4)
	min := maptile.Zoom(c / 4)
	out := MergeUp(set, min)
	vfReach("mergeup")
	var tiles []maptile.Tile
	area := 0
	for t, v := range out {
		if !v {
			continue
		}
		tiles = append(tiles, t)
		area += vfArea(t, 2)
		vfAssert("no-shallower-than-min", t.Z >= min)
		vfAssert("valid-tile", t.Valid())
	}
	vfAssert("same-area", area == len(in))
	for i, a := range tiles {
		for j, b := range tiles {
			if i != j {
				vfAssert("disjoint", !a.Contains(b))
			}
		}
	}
	for _, t := range in {
		covered := false
		for _, o := range tiles {
			if o.Contains(t) {
				covered = true
			}
		}
		vfAssert("input-tile-covered", covered)
	}
	// no complete sibling quad left unmerged above the requested zoom
	for _, t := range tiles {
		if t.Z > min {
			all := true
			for _, s := range t.Siblings() {
				if !out[s] {
					all = false
				}
			}
			vfAssert("no-complete-sibling-quad-left", !all)
		}
	}
}

func vfC14MergePartial_N(tier int) int { return 4 * 2 * 3 }
func vfC14MergePartial_Label(c int) string {
	return "other-quads=" + strconv.Itoa(c%4) + " min-zoom=" + strconv.Itoa((c/4)%2) + " count=" + strconv.Itoa(c/8+2)
}

func vfC14MergePartial(c int) {
	set, in := vfBuildSet(c % 4)
	min := maptile.Zoom((c / 4) % 2)
	count := c/8 + 2
	out := MergeUpPartial(set, min, count)
	vfReach("mergepartial")
	for t, v := range out {
		if v {
			vfAssert("partial-no-shallower-than-min", t.Z >= min)
		}
	}
	for _, t := range in {
		covered := false
		for o, v := range out {
			if v && o.Contains(t) {
				covered = true
			}
		}
		vfAssert("partial-input-tile-covered", covered)
	}
	// no complete sibling quad is left unmerged above the requested zoom (a complete quad has 4 >= count members)
	for t, v := range out {
		if v && t.Z > min {
			all := true
			for _, s := range t.Siblings() {
				if !out[s] {
					all = false
				}
			}
			vfAssert("partial-no-complete-sibling-quad-left", !all)
		}
	}
	if count == 4 {
		// merging only complete quads is MergeUp
		set2 := make(maptile.Set)
		for _, t := range in {
			set2[t] = true
		}
		ref := MergeUp(set2, min)
		for t, v := range ref {
			if v {
				vfAssert("partial-4-agrees-with-mergeup", out[t])
			}
		}
		for t, v := range out {
			if v {
				vfAssert("partial-4-agrees-with-mergeup-back", ref[t])
			}
		}
	}
}

// ---- line cover: latitudes from a catalogue (their mercator image is transcendental), longitudes
// symbolic; a symbolic parameter ranges over the whole segment ----

var vfLats = []float64{-70, -30, 0, 41, 66.6, 85}

func vfC14Line_N(tier int) int {
	n := len(vfLats)
	if tier == 0 {
		return 12
	}
	return n * n * 2
}
func vfLineDecode(c int) (float64, float64, maptile.Zoom) {
	n := len(vfLats)
	z := maptile.Zoom(1 + c%2)
	c /= 2
	// a fixed pseudo-random order so that the quick prefix is varied
	k := (c*7 + 3) % (n * n)
	return vfLats[k/n], vfLats[k%n], z
}
func vfC14Line_Label(c int) string {
	a, b, z := vfLineDecode(c)
	return "lat1=" + strconv.FormatFloat(a, 'g', -1, 64) + " lat2=" + strconv.FormatFloat(b, 'g', -1, 64) + " zoom=" + strconv.Itoa(int(z))
}

func vfC14Line(c int) {
	lat1, lat2, z := vfLineDecode(c)
	lon1, lon2 := vfReal("lon1"), vfReal("lon2")
	vfAssume(vfAnd(vfAnd(lon1 > -180, lon1 < 180), vfAnd(lon2 > -180, lon2 < 180)))
	// the property quantifies over line strings of positive length (a zero-length one has an empty cover)
	if lat1 == lat2 {
		vfAssume(lon1 != lon2)
	}
	a, b := orb.Point{lon1, lat1}, orb.Point{lon2, lat2}
	set := LineString(orb.LineString{a, b}, z)
	vfReach("line")
	fa, fb := maptile.Fraction(a, z), maptile.Fraction(b, z)
	n := 1 << uint(z)
	vfAssert("cover-not-empty", len(set) > 0)
	// every point of the segment that is strictly inside a tile lies in a tile of the cover
	t := vfReal("t")
	vfAssume(vfAnd(t >= 0, t <= 1))
	px, py := fa[0]+t*(fb[0]-fa[0]), fa[1]+t*(fb[1]-fa[1])
	for x := 0; x < n; x++ {
		for y := 0; y < n; y++ {
			// at distance > 2^-20 tile from the tile edges (the latitude image is a rounded float, so
			// exact-arithmetic slivers of width ~1e-16 at corner crossings are outside the claim)
			const d = 9.5367431640625e-07
			inside := vfAnd(vfAnd(float64(x)+d < px, px < float64(x+1)-d), vfAnd(float64(y)+d < py, py < float64(y+1)-d))
			tile := maptile.Tile{X: uint32(x), Y: uint32(y), Z: z}
			if set[tile] {
				// a covered tile is within the tile range spanned by the end points
				lox, hix := vfMinF(fa[0], fb[0]), vfMaxF(fa[0], fb[0])
				vfAssert("covered-tile-within-span", vfAnd(float64(x+1) > lox, float64(x) <= hix))
			} else {
				vfAssert("segment-point-in-uncovered-tile", vfNot(inside))
			}
		}
	}
	for tl := range set {
		vfAssert("cover-tile-valid", tl.Valid())
	}
}

func vfMinF(a, b float64) float64 { return vfIteF(a < b, a, b) }
func vfMaxF(a, b float64) float64 { return vfIteF(a > b, a, b) }

// ---- point, bound, polygon fill, collection: catalogue shapes ----

func vfC14Shapes_N(tier int) int     { return 6 }
func vfC14Shapes_Label(c int) string { return []string{"point", "bound", "square polygon", "polygon with hole", "thin polygon", "collection"}[c] }

func vfCentreIn(r orb.Ring, z maptile.Zoom, x, y int) bool {
	// tile-space even-odd test of the tile centre against the ring's tile-space image
	cx, cy := float64(x)+0.5, float64(y)+0.5
	in := false
	n := len(r) - 1
	for i := 0; i < n; i++ {
		s, e := maptile.Fraction(r[i], z), maptile.Fraction(r[i+1], z)
		if (s[1] > cy) != (e[1] > cy) {
			xi := s[0] + (cy-s[1])*(e[0]-s[0])/(e[1]-s[1])
			if cx < xi {
				in = !in
			}
		}
	}
	return in
}

func vfC14Shapes(c int) {
	z := maptile.Zoom(3)
	vfReach("shapes")
	sq := orb.Ring{{-100, -40}, {60, -40}, {60, 55}, {-100, 55}, {-100, -40}}
	hole := orb.Ring{{-50, -10}, {-50, 30}, {20, 30}, {20, -10}, {-50, -10}}
	thin := orb.Ring{{-170, 10}, {170, 12}, {170, 13}, {-170, 11}, {-170, 10}}
	check := func(p orb.Polygon) {
		set, err := Polygon(p, z)
		vfAssert("polygon-no-error", err == nil)
		b := p.Bound()
		lo, hi := maptile.At(b.Min, z), maptile.At(b.Max, z)
		for t := range set {
			vfAssert("polygon-tile-valid", t.Valid())
			vfAssert("polygon-tile-within-bound", t.X >= lo.X && t.X <= hi.X && t.Y >= hi.Y && t.Y <= lo.Y)
		}
		for x := 0; x < 8; x++ {
			for y := 0; y < 8; y++ {
				in := vfCentreIn(p[0], z, x, y)
				for _, h := range p[1:] {
					if vfCentreIn(h, z, x, y) {
						in = false
					}
				}
				if in {
					vfAssert("tile-with-centre-inside-is-covered", set[maptile.Tile{X: uint32(x), Y: uint32(y), Z: z}])
				}
			}
		}
	}
	switch c {
	case 0:
		p := orb.Point{vfReal("lon"), 37}
		vfAssume(vfAnd(p[0] > -180, p[0] < 180))
		set := Point(p, z)
		vfAssert("point-cover-is-its-tile", len(set) == 1 && set[maptile.At(p, z)])
	case 1:
		b := orb.Bound{Min: orb.Point{-100, -40}, Max: orb.Point{60, 55}}
		set := Bound(b, z)
		lo, hi := maptile.At(b.Min, z), maptile.At(b.Max, z)
		vfAssert("bound-cover-is-the-rectangle", len(set) == int(hi.X-lo.X+1)*int(lo.Y-hi.Y+1))
	case 2:
		check(orb.Polygon{sq})
	case 3:
		check(orb.Polygon{sq, hole})
	case 4:
		check(orb.Polygon{thin})
	case 5:
		col := orb.Collection{orb.Point{10, 10}, orb.LineString{{-100, -40}, {60, 55}}, orb.Polygon{sq}}
		set, err := Collection(col, z)
		vfAssert("collection-no-error", err == nil)
		p1 := Point(orb.Point{10, 10}, z)
		l1 := LineString(orb.LineString{{-100, -40}, {60, 55}}, z)
		g1, _ := Polygon(orb.Polygon{sq}, z)
		for _, s := range []maptile.Set{p1, l1, g1} {
			for t := range s {
				vfAssert("collection-is-the-union", set[t])
			}
		}
		vfAssert("collection-nothing-extra", len(set) <= len(p1)+len(l1)+len(g1))
	}
}

// ---- polygon fill at every zoom 1..22: rectangles of tiles around several longitudes ----
// The rectangle spans the tile centres (x0,y0)..(x0+5,y0+4): every tile of that range must be in
// the cover and nothing else. Concrete polygons (the tile set is a map keyed by tiles, a symbolic
// column would need every key concretised): these cases put the integer tile arithmetic of the scan
// fill at wide tile indices (16 bits and more, up to 2^22) inside the check.

var vfHZLons = []float64{-100, 10, 179}

func vfC14HighZoom_N(tier int) int { return 22 * len(vfHZLons) }
func vfC14HighZoom_Label(c int) string {
	return "zoom=" + strconv.Itoa(1+c/len(vfHZLons)) + " lon=" + strconv.FormatFloat(vfHZLons[c%len(vfHZLons)], 'g', -1, 64)
}

func vfC14HighZoom(c int) {
	z := maptile.Zoom(1 + c/len(vfHZLons))
	lon := vfHZLons[c%len(vfHZLons)]
	n := uint32(1) << uint32(z)
	t0 := maptile.At(orb.Point{lon, 50}, z)
	w, h := uint32(5), uint32(4)
	if w >= n {
		w, h = n-1, n-1
	}
	if t0.X+w >= n {
		t0.X = n - 1 - w
	}
	if t0.Y+h >= n {
		t0.Y = n - 1 - h
	}
	c0 := maptile.Tile{X: t0.X, Y: t0.Y, Z: z}.Center()
	c1 := maptile.Tile{X: t0.X + w, Y: t0.Y + h, Z: z}.Center()
	ring := orb.Ring{{c0[0], c1[1]}, {c1[0], c1[1]}, {c1[0], c0[1]}, {c0[0], c0[1]}, {c0[0], c1[1]}}
	set, err := Polygon(orb.Polygon{ring}, z)
	vfReach("highzoom")
	vfAssert("highzoom-no-error", err == nil)
	for x := t0.X; x <= t0.X+w; x++ {
		for y := t0.Y; y <= t0.Y+h; y++ {
			vfAssert("highzoom-tile-of-the-rectangle-covered", set[maptile.Tile{X: x, Y: y, Z: z}])
		}
	}
	vfAssert("highzoom-nothing-outside-the-rectangle", len(set) == int(w+1)*int(h+1))
}

// ---- polygons whose vertices sit exactly on tile column/row edges: every start vertex, both directions ----
// The scan fill depends on the boundary trace, whose bookkeeping at the first/closing vertex is
// position dependent: the cover must not depend on which vertex the ring starts at or on its
// direction, must raise no error, and must contain every tile whose centre is inside (concrete).

var vfEdgeRings = [][]orb.Point{
	{{0, 10}, {15, -20}, {-25, -5}, {-20, 30}},
	{{45, 0}, {60, 40}, {20, 50}, {10, -30}},
	{{-90, -10}, {-60, 20}, {-120, 35}, {-135, -45}},
	{{0, 0}, {90, 0}, {90, 66.51326044311186}, {0, 66.51326044311186}}, // corners on tile corners at zoom 2..
}

func vfC14Rotations_N(tier int) int { return len(vfEdgeRings) * 4 * 2 * 3 }
func vfC14Rotations_Label(c int) string {
	return "ring#" + strconv.Itoa(c/24) + " start=" + strconv.Itoa(c%4) + " dir=" + []string{"as listed", "reversed"}[(c/4)%2] + " zoom=" + strconv.Itoa(3+(c/8)%3)
}

func vfRotRing(base []orb.Point, start int, rev bool) orb.Ring {
	n := len(base)
	r := make(orb.Ring, 0, n+1)
	for i := 0; i < n; i++ {
		k := (start + i) % n
		if rev {
			k = (start - i + 2*n) % n
		}
		r = append(r, base[k])
	}
	return append(r, r[0])
}

func vfC14Rotations(c int) {
	base := vfEdgeRings[c/24]
	start, rev, z := c%4, (c/4)%2 == 1, maptile.Zoom(3+(c/8)%3)
	ring := vfRotRing(base, start, rev)
	set, err := Polygon(orb.Polygon{ring}, z)
	vfReach("rotations")
	vfAssert("edge-ring-no-error", err == nil)
	ref, err0 := Polygon(orb.Polygon{vfRotRing(base, 0, false)}, z)
	vfAssert("edge-ring-reference-no-error", err0 == nil)
	if err != nil || err0 != nil {
		return
	}
	vfAssert("cover-independent-of-start-and-direction-size", len(set) == len(ref))
	for t := range ref {
		vfAssert("cover-independent-of-start-and-direction", set[t])
	}
	n := 1 << uint(z)
	for x := 0; x < n; x++ {
		for y := 0; y < n; y++ {
			if vfCentreIn(ring, z, x, y) {
				vfAssert("edge-ring-tile-with-centre-inside-covered", set[maptile.Tile{X: uint32(x), Y: uint32(y), Z: z}])
			}
		}
	}
}
