package resample

import (
	"strconv"

	"github.com/paulmach/orb"
)

// one-dimensional lines: vertices (x_i, 0) with symbolic non-decreasing abscissas, so that the
// segment lengths are arbitrary non-negative reals (zero-length segments and repeated vertices
// included) and the distance function needs no square root.
func vfAxisLine(n int) orb.LineString {
	var ls orb.LineString
	for i := 0; i < n; i++ {
		x := vfReal("x" + strconv.Itoa(i))
		if i > 0 {
			vfAssume(x >= ls[i-1][0])
		}
		ls = append(ls, orb.Point{x, 0})
	}
	return ls
}

func vfDx(a, b orb.Point) float64 { return vfIteF(b[0] >= a[0], b[0]-a[0], a[0]-b[0]) }

func vfC17Resample_N(tier int) int { return (3 + tier) * 6 }
func vfC17Resample_Label(c int) string {
	return "vertices=" + strconv.Itoa(c/6+2) + " N=" + strconv.Itoa(c%6+1)
}

func vfC17Resample(c int) {
	n := c/6 + 2
	N := c%6 + 1
	in := vfAxisLine(n)
	total := in[n-1][0] - in[0][0]
	vfAssume(total > 0) // positive length
	x0, xl := in[0][0], in[n-1][0]
	out := Resample(in.Clone(), vfDx, N)
	vfReach("resample")
	vfAssert("exactly-n-points", len(out) == N)
	if len(out) == 0 {
		return
	}
	vfAssert("starts-at-first-vertex", vfAnd(out[0][0] == x0, out[0][1] == 0))
	if N > 1 {
		vfAssert("ends-at-last-vertex", vfAnd(out[N-1][0] == xl, out[N-1][1] == 0))
	}
	for k := 0; k < len(out); k++ {
		vfAssert("on-the-line", vfAnd(out[k][1] == 0, vfAnd(out[k][0] >= x0, out[k][0] <= xl)))
		if k > 0 {
			vfAssert("travel-order", out[k][0] >= out[k-1][0])
		}
		if N > 1 {
			// k-th point at k/(N-1) of the total length from the start
			vfAssert("evenly-spaced", (out[k][0]-x0)*float64(N-1) == float64(k)*total)
		}
	}
}

func vfC17Interval_N(tier int) int     { return 2 + tier }
func vfC17Interval_Label(c int) string { return "vertices=" + strconv.Itoa(c+2) }

func vfC17Interval(c int) {
	n := c + 2
	in := vfAxisLine(n)
	total := in[n-1][0] - in[0][0]
	vfAssume(total > 0)
	d := vfReal("d")
	vfAssume(vfAnd(d > 0, total < 5*d)) // at most 5 points
	x0 := in[0][0]
	out := ToInterval(in.Clone(), vfDx, d)
	vfReach("interval")
	m := len(out)
	vfAssert("interval-at-least-one-point", m >= 1)
	// floor(total/d)+1 points
	vfAssert("interval-count", vfAnd(float64(m-1)*d <= total, total < float64(m)*d))
	for k := 0; k < m; k++ {
		if m > 1 {
			vfAssert("interval-evenly-spaced", (out[k][0]-x0)*float64(m-1) == float64(k)*total)
		}
	}
}

// ---- edge cases: never fail ----

func vfC17Edge_N(tier int) int     { return 9 }
func vfC17Edge_Label(c int) string { return "edge#" + strconv.Itoa(c) }

func vfC17Edge(c int) {
	p := orb.Point{vfReal("px"), vfReal("py")}
	q := orb.Point{vfReal("qx"), vfReal("qy")}
	d := vfReal("d")
	vfReach("edge")
	switch c {
	case 0:
		vfAssert("nonpositive-n-nil", Resample(orb.LineString{p, q}, vfDx, 0) == nil && Resample(orb.LineString{p, q}, vfDx, -3) == nil)
	case 1:
		vfAssume(d <= 0)
		vfAssert("nonpositive-interval-nil", ToInterval(orb.LineString{p, q}, vfDx, d) == nil)
	case 2:
		vfAssert("nil-line-as-is", len(Resample(nil, vfDx, 4)) == 0)
		vfAssert("empty-line-as-is", len(Resample(orb.LineString{}, vfDx, 4)) == 0)
	case 3:
		r := Resample(orb.LineString{p}, vfDx, 4)
		vfAssert("single-vertex-as-is", len(r) == 1 && r[0] == p)
	case 4:
		vfAssume(d > 0)
		vfAssert("interval-nil-line-as-is", len(ToInterval(nil, vfDx, d)) == 0)
	case 5:
		vfAssume(d > 0)
		vfAssert("interval-empty-line-as-is", len(ToInterval(orb.LineString{}, vfDx, d)) == 0)
	case 6:
		vfAssume(d > 0)
		r := ToInterval(orb.LineString{p}, vfDx, d)
		vfAssert("interval-single-vertex-as-is", len(r) == 1)
	case 7:
		// all vertices coincide: padded to the requested count
		r := Resample(orb.LineString{p, p, p}, vfDx, 5)
		vfAssert("coincident-padded", len(r) == 5)
		for i := range r {
			vfAssert("coincident-padded-same-point", vfAnd(r[i][0] == p[0], r[i][1] == p[1]))
		}
	case 8:
		r := Resample(orb.LineString{p, p, p, p}, vfDx, 2)
		vfAssert("coincident-truncated", len(r) == 2)
	}
}

// ---- folded lines: vertices on an axis in ANY order (the line doubles back, may return to its
// start, may repeat vertices); the position of every sample is checked by arc length ----

func vfC17Folded_N(tier int) int { return (2 + tier) * 3 }
func vfC17Folded_Label(c int) string {
	return "vertices=" + strconv.Itoa(c/3+3) + " N=" + strconv.Itoa(c%3+2)
}

func vfC17Folded(c int) {
	n := c/3 + 3
	N := c%3 + 2
	var in orb.LineString
	for i := 0; i < n; i++ {
		in = append(in, orb.Point{vfReal("x" + strconv.Itoa(i)), 0})
	}
	cum := make([]float64, n)
	for i := 1; i < n; i++ {
		cum[i] = cum[i-1] + vfDx(in[i-1], in[i])
	}
	total := cum[n-1]
	vfAssume(total > 0)
	out := Resample(in.Clone(), vfDx, N)
	vfReach("folded")
	vfAssert("folded-exactly-n-points", len(out) == N)
	if len(out) != N {
		return
	}
	vfAssert("folded-starts-at-first-vertex", vfAnd(out[0][0] == in[0][0], out[0][1] == 0))
	vfAssert("folded-ends-at-last-vertex", vfAnd(out[N-1][0] == in[n-1][0], out[N-1][1] == 0))
	s := float64(N - 1)
	for k := 0; k < N; k++ {
		t := float64(k) * total // (N-1) times the arc length of sample k
		on := false
		for i := 0; i+1 < n; i++ {
			off := t - s*cum[i] // (N-1) times the distance into segment i
			fw := s*(out[k][0]-in[i][0]) == off
			bw := s*(in[i][0]-out[k][0]) == off
			on = vfOr(on, vfAnd(vfAnd(s*cum[i] <= t, t <= s*cum[i+1]), vfOr(vfAnd(in[i+1][0] >= in[i][0], fw), vfAnd(vfNot(in[i+1][0] >= in[i][0]), bw))))
		}
		vfAssert("folded-at-arc-length", vfAnd(out[k][1] == 0, on))
	}
}
