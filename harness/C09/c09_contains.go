package planar

import (
	"strconv"

	"github.com/paulmach/orb"
)

// Ring concrete (enumerated), query point symbolic: every real point of the plane.

func vfGridPt(i int) orb.Point { return orb.Point{float64(i % 4), float64(i / 4)} }

// vfRing3 decodes c into an ordered triple of distinct grid points and a closed/unclosed spelling.
func vfRingK(c int, k int) (orb.Ring, bool) {
	closed := c%2 == 1
	c /= 2
	idx := make([]int, k)
	for i := 0; i < k; i++ {
		idx[i] = c % 16
		c /= 16
	}
	for i := 0; i < k; i++ {
		for j := 0; j < i; j++ {
			if idx[i] == idx[j] {
				return nil, false
			}
		}
	}
	var r orb.Ring
	for _, i := range idx {
		r = append(r, vfGridPt(i))
	}
	if closed {
		r = append(r, r[0])
	}
	return r, true
}

func vfRingLabel(r orb.Ring) string {
	s := ""
	for _, p := range r {
		s += "(" + strconv.Itoa(int(p[0])) + "," + strconv.Itoa(int(p[1])) + ")"
	}
	return s
}

// exact oracles on the implicitly closed ring, written with cross-multiplication (ring concrete,
// so every test is linear in the query point).
func vfOnBoundary(r orb.Ring, q orb.Point) bool {
	on := false
	n := len(r)
	for i := 0; i < n; i++ {
		s, e := r[i], r[(i+1)%n]
		col := (q[0]-s[0])*(e[1]-s[1]) == (q[1]-s[1])*(e[0]-s[0])
		minx, maxx, miny, maxy := s[0], e[0], s[1], e[1]
		if minx > maxx {
			minx, maxx = maxx, minx
		}
		if miny > maxy {
			miny, maxy = maxy, miny
		}
		within := vfAnd(vfAnd(minx <= q[0], q[0] <= maxx), vfAnd(miny <= q[1], q[1] <= maxy))
		on = vfOr(on, vfAnd(col, within))
	}
	return on
}

// even-odd rule with a ray towards +x and the half-open rule on y
func vfEvenOdd(r orb.Ring, q orb.Point) bool {
	in := false
	n := len(r)
	for i := 0; i < n; i++ {
		s, e := r[i], r[(i+1)%n]
		if s[1] == e[1] {
			continue
		}
		if s[1] > e[1] {
			s, e = e, s
		}
		// s below e: straddles iff s.y <= q.y < e.y ; crossing to the right iff q is left of the edge
		straddle := vfAnd(s[1] <= q[1], q[1] < e[1])
		left := (q[0]-s[0])*(e[1]-s[1]) < (q[1]-s[1])*(e[0]-s[0])
		cross := vfAnd(straddle, left)
		in = vfOr(vfAnd(in, vfNot(cross)), vfAnd(vfNot(in), cross))
	}
	return in
}

// the one-ulp nudge answers for (qx+ulp, qy): exclude query points that share an abscissa with a
// vertex AND lie within 2^-10 (horizontally) of an edge they are not on.
func vfSeparated(r orb.Ring, q orb.Point) bool {
	nudged := false
	for _, v := range r {
		nudged = vfOr(nudged, q[0] == v[0])
	}
	ok := true
	n := len(r)
	for i := 0; i < n; i++ {
		s, e := r[i], r[(i+1)%n]
		if s[1] == e[1] {
			continue
		}
		if s[1] > e[1] {
			s, e = e, s
		}
		dy := e[1] - s[1]
		// horizontal offset of q from the edge's carrier at height q.y, times dy (> 0)
		h := (q[0]-s[0])*dy - (q[1]-s[1])*(e[0]-s[0])
		outside := vfOr(q[1] < s[1]-0.0009765625, q[1] > e[1]+0.0009765625)
		far := vfOr(h >= 0.0009765625*dy, h <= -0.0009765625*dy)
		ok = vfAnd(ok, vfOr(outside, vfOr(h == 0, far)))
	}
	return vfImplies(nudged, ok)
}

func vfCheckRing(r orb.Ring) {
	q := orb.Point{vfReal("qx"), vfReal("qy")}
	// the half-open oracle is for the implicitly closed ring without the repeated last vertex
	open := r
	if len(r) > 1 && r[0] == r[len(r)-1] {
		open = r[:len(r)-1]
	}
	vfAssume(vfSeparated(open, q))
	got := RingContains(r, q)
	vfReach("ring-contains")
	want := vfOr(vfOnBoundary(open, q), vfEvenOdd(open, q))
	vfAssert("contains-iff-inside-or-on-boundary", got == want)
}

func vfC09Ring3_N(tier int) int {
	if tier == 0 {
		return 2 * 16 * 16 * 4 // first vertex ranges over one row of the grid
	}
	return 2 * 16 * 16 * 16
}
func vfC09Ring3_Label(c int) string {
	r, ok := vfRingK(c, 3)
	if !ok {
		return "skip"
	}
	return vfRingLabel(r)
}

func vfC09Ring3(c int) {
	r, ok := vfRingK(c, 3)
	if !ok {
		vfReach("skip")
		vfAssert("skip", true)
		return
	}
	vfCheckRing(r)
}

func vfC09Ring4_N(tier int) int {
	if tier == 0 {
		return 2 * 16 * 16 * 4
	}
	return 2 * 16 * 16 * 16 * 16
}
func vfC09Ring4_Label(c int) string {
	r, ok := vfRingK(c, 4)
	if !ok {
		return "skip"
	}
	return vfRingLabel(r)
}

func vfC09Ring4(c int) {
	r, ok := vfRingK(c, 4)
	if !ok {
		vfReach("skip")
		vfAssert("skip", true)
		return
	}
	vfCheckRing(r)
}

// larger rings: collinear runs, repeated vertices, vertical / horizontal edges, bow-ties, spikes
var vfBigRings = []orb.Ring{
	{{0, 0}, {1, 0}, {2, 0}, {3, 0}, {3, 3}, {0, 3}},                 // collinear run along the bottom
	{{0, 0}, {3, 0}, {3, 3}, {0, 3}, {0, 0}},                         // closed square
	{{0, 0}, {3, 0}, {3, 0}, {3, 3}, {0, 3}},                         // repeated vertex
	{{0, 0}, {3, 3}, {3, 0}, {0, 3}},                                 // bow-tie
	{{0, 0}, {2, 0}, {2, 1}, {1, 1}, {1, 2}, {2, 2}, {2, 3}, {0, 3}}, // C shape
	{{0, 0}, {3, 0}, {3, 1}, {1, 1}, {3, 1}, {3, 3}, {0, 3}},         // spike (edge traversed twice)
	{{0, 1}, {1, 0}, {2, 1}, {3, 0}, {3, 3}, {2, 2}, {1, 3}, {0, 2}}, // zig-zag, local extrema at vertices
	{{1, 0}, {2, 0}, {3, 1}, {3, 2}, {2, 3}, {1, 3}, {0, 2}, {0, 1}}, // octagon
	{{0, 0}, {0, 0}, {0, 0}},                                         // degenerate point
	{{0, 0}, {3, 0}, {0, 0}},                                         // degenerate segment
	{{0, 0}, {1, 1}, {2, 2}, {3, 3}},                                 // fully collinear
}

func vfRotRev(r orb.Ring, rot int, rev bool) orb.Ring {
	n := len(r)
	out := make(orb.Ring, 0, n)
	for i := 0; i < n; i++ {
		out = append(out, r[(i+rot)%n])
	}
	if rev {
		for i, j := 0, n-1; i < j; i, j = i+1, j-1 {
			out[i], out[j] = out[j], out[i]
		}
	}
	return out
}

func vfBigDecode(c int) (orb.Ring, string) {
	k := 0
	for ri, r := range vfBigRings {
		n := len(r)
		if len(r) > 1 && r[0] == r[n-1] {
			// closed spelling: rotate the open part and re-close
			n--
		}
		for rot := 0; rot < n; rot++ {
			for rev := 0; rev < 2; rev++ {
				if k == c {
					open := r[:n]
					out := vfRotRev(open, rot, rev == 1)
					if n != len(r) {
						out = append(out, out[0])
					}
					return out, "ring#" + strconv.Itoa(ri) + " rot=" + strconv.Itoa(rot) + " rev=" + strconv.Itoa(rev)
				}
				k++
			}
		}
	}
	return nil, ""
}

func vfC09Big_N(tier int) int {
	n := 0
	for {
		if r, _ := vfBigDecode(n); r == nil {
			return n
		}
		n++
	}
}
func vfC09Big_Label(c int) string { _, l := vfBigDecode(c); return l }
func vfC09Big(c int) {
	r, _ := vfBigDecode(c)
	vfCheckRing(r)
}

// polygons with holes and multi-polygons: composition of the ring answers
var vfPolys = []orb.Polygon{
	{{{0, 0}, {3, 0}, {3, 3}, {0, 3}, {0, 0}}, {{1, 1}, {1, 2}, {2, 2}, {2, 1}, {1, 1}}},
	{{{0, 0}, {3, 0}, {3, 3}, {0, 3}}, {{1, 1}, {2, 1}, {1, 2}}, {{2, 2}, {2.5, 2}, {2.5, 2.5}}},
	{{{0, 0}, {3, 0}, {0, 3}}, {{0, 0}, {1, 0}, {0, 1}}}, // hole sharing a corner and edges with the outer ring
	{{{0, 0}, {1, 0}, {1, 1}, {0, 1}}},
	// two disjoint triangular holes whose bounding boxes overlap, in both orders; three holes; an empty hole first
	{{{0, 0}, {8, 0}, {8, 8}, {0, 8}}, {{1, 1}, {5, 1}, {1, 5}}, {{5, 2}, {5, 5}, {2, 5}}},
	{{{0, 0}, {8, 0}, {8, 8}, {0, 8}}, {{5, 2}, {5, 5}, {2, 5}}, {{1, 1}, {5, 1}, {1, 5}}},
	{{{0, 0}, {8, 0}, {8, 8}, {0, 8}, {0, 0}}, {{1, 1}, {5, 1}, {1, 5}, {1, 1}}, {{6, 6}, {7, 6}, {7, 7}, {6, 6}}, {{5, 2}, {5, 5}, {2, 5}, {5, 2}}},
	{{{0, 0}, {4, 0}, {4, 4}, {0, 4}}, {}, {{1, 1}, {2, 1}, {1, 2}}},
}

func vfRingOracle(r orb.Ring, q orb.Point) bool {
	open := r
	if len(r) > 1 && r[0] == r[len(r)-1] {
		open = r[:len(r)-1]
	}
	vfAssume(vfSeparated(open, q))
	return vfOr(vfOnBoundary(open, q), vfEvenOdd(open, q))
}

func vfPolyOracle(p orb.Polygon, q orb.Point) bool {
	in := vfRingOracle(p[0], q)
	for _, h := range p[1:] {
		in = vfAnd(in, vfNot(vfRingOracle(h, q)))
	}
	return in
}

func vfC09Polygon_N(tier int) int     { return len(vfPolys) + 3 }
func vfC09Polygon_Label(c int) string { return "poly#" + strconv.Itoa(c) }
func vfC09Polygon(c int) {
	q := orb.Point{vfReal("qx"), vfReal("qy")}
	vfReach("polygon-contains")
	if c < len(vfPolys) {
		vfAssert("polygon-iff-outer-and-no-hole", PolygonContains(vfPolys[c], q) == vfPolyOracle(vfPolys[c], q))
		return
	}
	var mp orb.MultiPolygon
	switch c - len(vfPolys) {
	case 0:
		mp = orb.MultiPolygon{vfPolys[0], vfPolys[3]}
	case 1:
		mp = orb.MultiPolygon{vfPolys[2], vfPolys[1]}
	case 2:
		mp = orb.MultiPolygon{}
	}
	want := false
	for _, p := range mp {
		want = vfOr(want, vfPolyOracle(p, q))
	}
	vfAssert("multipolygon-iff-any-member", MultiPolygonContains(mp, q) == want)
}
