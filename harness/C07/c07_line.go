package clip

import (
	"strconv"

	"github.com/paulmach/orb"
)

var vfBoxes = []orb.Bound{
	{Min: orb.Point{0, 0}, Max: orb.Point{1, 1}},
	{Min: orb.Point{-1.5, 0.25}, Max: orb.Point{2.25, 7}},
}

func vfPt(n string) orb.Point { return orb.Point{vfReal(n + "x"), vfReal(n + "y")} }

func vfInClosed(b orb.Bound, p orb.Point) bool {
	return vfAnd(vfAnd(b.Min[0] <= p[0], p[0] <= b.Max[0]), vfAnd(b.Min[1] <= p[1], p[1] <= b.Max[1]))
}

func vfInOpen(b orb.Bound, p orb.Point) bool {
	return vfAnd(vfAnd(b.Min[0] < p[0], p[0] < b.Max[0]), vfAnd(b.Min[1] < p[1], p[1] < b.Max[1]))
}

func vfPtEq(p, q orb.Point) bool { return vfAnd(p[0] == q[0], p[1] == q[1]) }

func vfDot(ax, ay, bx, by float64) float64 { return ax*bx + ay*by }

// q lies on the segment [u,v], for q already known to be on the carrier line a + s(b-a):
// decided with dot products along d = b - a (no division).
func vfBetween(q, u, v, d orb.Point) bool {
	return vfAnd(vfDot(q[0]-u[0], q[1]-u[1], d[0], d[1]) >= 0, vfDot(v[0]-q[0], v[1]-q[1], d[0], d[1]) >= 0)
}

func vfCollinear(q, a, b orb.Point) bool {
	return (q[0]-a[0])*(b[1]-a[1]) == (q[1]-a[1])*(b[0]-a[0])
}

// ---- one segment: exact point-set semantics ----

func vfC07Segment_N(tier int) int { return 1 + 3*tier }
func vfC07Segment_Label(c int) string {
	return "box#" + strconv.Itoa(c/2) + " open=" + strconv.FormatBool(c%2 == 1)
}

func vfC07Segment(c int) {
	box := vfBoxes[c/2]
	open := c%2 == 1
	a, b := vfPt("a"), vfPt("b")
	in := orb.LineString{a, b}
	before := vfSnapshot(in)
	var out orb.MultiLineString
	if open {
		out = LineString(box, in, OpenBound(true))
	} else {
		out = LineString(box, in)
	}
	vfReach("segment")
	vfAssert("input-not-modified", vfUnchanged(in, before))
	vfAssert("at-most-one-piece", len(out) <= 1)
	d := orb.Point{b[0] - a[0], b[1] - a[1]}
	t := vfReal("t")
	vfAssume(vfAnd(t >= 0, t <= 1))
	p := orb.Point{a[0] + t*d[0], a[1] + t*d[1]}
	if len(out) == 0 {
		if open {
			vfAssert("open-nothing-strictly-inside-is-dropped", vfNot(vfInOpen(box, p)))
		} else {
			vfAssert("nothing-inside-is-dropped", vfNot(vfInClosed(box, p)))
		}
		return
	}
	piece := out[0]
	vfAssert("piece-has-two-vertices", len(piece) == 2)
	q0, q1 := piece[0], piece[1]
	vfAssert("vertex-in-box", vfAnd(vfInClosed(box, q0), vfInClosed(box, q1)))
	vfAssert("vertex-on-input-line", vfAnd(vfCollinear(q0, a, b), vfCollinear(q1, a, b)))
	vfAssert("vertex-on-input-segment", vfAnd(vfBetween(q0, a, b, d), vfBetween(q1, a, b, d)))
	vfAssert("travel-order", vfDot(q1[0]-q0[0], q1[1]-q0[1], d[0], d[1]) >= 0)
	onPiece := vfBetween(p, q0, q1, d)
	// every point of the output piece, q0 + s(q1-q0), is in the closed box (checked per axis)
	sp := vfReal("s")
	vfAssume(vfAnd(sp >= 0, sp <= 1))
	pp := orb.Point{q0[0] + sp*(q1[0]-q0[0]), q0[1] + sp*(q1[1]-q0[1])}
	vfAssert("nothing-extra-minx", box.Min[0] <= pp[0])
	vfAssert("nothing-extra-maxx", pp[0] <= box.Max[0])
	vfAssert("nothing-extra-miny", box.Min[1] <= pp[1])
	vfAssert("nothing-extra-maxy", pp[1] <= box.Max[1])
	if !open {
		vfAssert("inside-part-is-kept", vfImplies(vfInClosed(box, p), onPiece))
		vfAssert("degenerate-segment-inside", vfImplies(vfPtEq(a, b), vfInClosed(box, a)))
	} else {
		vfAssert("open-strictly-inside-part-is-kept", vfImplies(vfInOpen(box, p), onPiece))
		// closure of the strictly inside part: a non-degenerate piece passes through the interior
		mid := orb.Point{(q0[0] + q1[0]) / 2, (q0[1] + q1[1]) / 2}
		vfAssert("open-piece-through-interior", vfImplies(vfNot(vfPtEq(q0, q1)), vfInOpen(box, mid)))
	}
	// clipping the piece again returns it unchanged
	var again orb.MultiLineString
	if open {
		again = LineString(box, orb.LineString{q0, q1}, OpenBound(true))
	} else {
		again = LineString(box, orb.LineString{q0, q1})
		vfAssert("reclip-one-piece", len(again) == 1)
	}
	if len(again) == 1 && len(again[0]) == 2 {
		vfAssert("reclip-unchanged", vfAnd(vfPtEq(again[0][0], q0), vfPtEq(again[0][1], q1)))
	}
}

// ---- wholly inside: returned as is (comparison only, any number of vertices) ----

func vfC07Inside_N(tier int) int     { return 5 * 2 }
func vfC07Inside_Label(c int) string { return "n=" + strconv.Itoa(c/2) + " open=" + strconv.FormatBool(c%2 == 1) }

func vfC07Inside(c int) {
	n := c / 2
	open := c%2 == 1
	box := orb.Bound{Min: vfPt("min"), Max: vfPt("max")}
	vfAssume(vfAnd(box.Min[0] < box.Max[0], box.Min[1] < box.Max[1]))
	var in orb.LineString
	for i := 0; i < n; i++ {
		p := vfPt("v" + strconv.Itoa(i))
		if open {
			vfAssume(vfInOpen(box, p))
		} else {
			vfAssume(vfInClosed(box, p))
		}
		in = append(in, p)
	}
	var out orb.MultiLineString
	if open {
		out = LineString(box, in, OpenBound(true))
	} else {
		out = LineString(box, in)
	}
	vfReach("inside")
	if n == 0 {
		vfAssert("empty-gives-nil", out == nil)
		return
	}
	if n == 1 {
		vfAssert("single-vertex-gives-nothing", len(out) == 0)
		return
	}
	vfAssert("inside-one-piece", len(out) == 1)
	vfAssert("inside-same-length", len(out[0]) == n)
	for i := 0; i < n && i < len(out[0]); i++ {
		vfAssert("inside-same-vertex", vfPtEq(out[0][i], in[i]))
	}
}

// ---- two segments: the result is the two one-segment results, joined at the middle vertex
// exactly when that vertex is inside (closed) / strictly inside (open) ----

// end vertices from a catalogue of positions relative to the unit box (outside corner regions,
// outside side regions, on corners, on edges, inside); the middle vertex is any real point.
var vfEnds = []orb.Point{{0.5, 0.5}, {-1, -1}, {0.5, -1}, {0, 0}, {0, 0.5}, {1, 1}, {2, 0.5}, {1, 0.25}, {0.5, 2}, {2, 2}, {-1, 0.5}, {0.25, 0.75}}

func vfC07Path_N(tier int) int {
	n := 6
	if tier > 0 {
		n = len(vfEnds)
	}
	return n * n * 2
}
func vfPathDecode(c int) (int, int, bool) {
	open := c%2 == 1
	c /= 2
	// square spiral order so that an index means the same pair in both tiers
	k := 0
	for n := 1; n <= len(vfEnds); n++ {
		for i := 0; i < n; i++ {
			for j := 0; j < n; j++ {
				if i == n-1 || j == n-1 {
					if k == c {
						return i, j, open
					}
					k++
				}
			}
		}
	}
	return 0, 0, open
}
func vfC07Path_Label(c int) string {
	i, j, open := vfPathDecode(c)
	return "v0=#" + strconv.Itoa(i) + " v2=#" + strconv.Itoa(j) + " open=" + strconv.FormatBool(open)
}

func vfC07Path(c int) {
	box := vfBoxes[0]
	i0, i2, open := vfPathDecode(c)
	v0, v1, v2 := vfEnds[i0], vfPt("v1"), vfEnds[i2]
	clipL := func(ls orb.LineString) orb.MultiLineString {
		if open {
			return LineString(box, ls, OpenBound(true))
		}
		return LineString(box, ls)
	}
	whole := clipL(orb.LineString{v0, v1, v2})
	s1 := clipL(orb.LineString{v0, v1})
	s2 := clipL(orb.LineString{v1, v2})
	vfReach("path")
	joined := vfInClosed(box, v1)
	if open {
		joined = vfInOpen(box, v1)
	}
	// expected vertex list
	var exp orb.MultiLineString
	if len(s1) == 1 && len(s2) == 1 {
		// both segments contribute; they are one piece iff the middle vertex is inside
		if vfSymTrue(joined) {
			exp = orb.MultiLineString{{s1[0][0], v1, s2[0][1]}}
		} else {
			exp = orb.MultiLineString{s1[0], s2[0]}
		}
	} else if len(s1) == 1 {
		exp = orb.MultiLineString{s1[0]}
	} else if len(s2) == 1 {
		exp = orb.MultiLineString{s2[0]}
	}
	vfAssert("path-pieces", len(whole) == len(exp))
	for i := range exp {
		if i < len(whole) {
			vfAssert("path-piece-length", len(whole[i]) == len(exp[i]))
			for j := range exp[i] {
				if j < len(whole[i]) {
					vfAssert("path-vertex", vfPtEq(whole[i][j], exp[i][j]))
				}
			}
		}
	}
}

// vfSymTrue forks on a (possibly symbolic) condition.
func vfSymTrue(c bool) bool {
	if c {
		return true
	}
	return false
}
