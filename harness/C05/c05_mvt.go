package mvt

import "strconv"

// MVT hostile input. (i) every byte string of length n through Unmarshal;
// (ii) structure-aware: consistent concrete outer framing around a fully symbolic feature body.

const vfMvtAllocCap = 1 << 20

func vfC05MvtRaw_N(tier int) int {
	if tier == 0 {
		return 6
	}
	return 8
}
func vfC05MvtRaw_Label(c int) string { return "len=" + strconv.Itoa(c) }

func vfC05MvtRaw(c int) {
	data := vfBytes("d", c)
	vfAllocLimit(vfMvtAllocCap)
	layers, err := Unmarshal(data)
	vfReach("mvt-raw")
	vfAssert("ran", vfOr(err != nil, vfOr(layers == nil, layers != nil)))
}

// tile{ layer(3){ name(1)="a", [prefix features], feature(2){ body: m symbolic bytes } } }
func vfFrame(tag byte, body []byte) []byte {
	out := []byte{tag, byte(len(body))}
	return append(out, body...)
}

func vfC05MvtFeature_N(tier int) int {
	if tier == 0 {
		return 2 * 6
	}
	return 2 * 8
}
func vfC05MvtFeature_Label(c int) string {
	return "prefix=" + strconv.Itoa(c%2) + " body=" + strconv.Itoa(c/2)
}

func vfC05MvtFeature(c int) {
	m := c / 2
	var layer []byte
	layer = append(layer, 0x0a, 1, 'a') // name
	if c%2 == 1 {
		// a well-formed point feature first, so the decoder's iterators hold state from it
		good := []byte{0x18, 1, 0x22, 3, 9, 2, 2} // type=POINT, geometry=[moveTo(1), 1, 1]
		layer = append(layer, vfFrame(0x12, good)...)
	}
	layer = append(layer, vfFrame(0x12, vfBytes("f", m))...)
	tile := vfFrame(0x1a, layer)
	vfAllocLimit(vfMvtAllocCap)
	layers, err := Unmarshal(tile)
	vfReach("mvt-feature")
	vfAssert("ran", vfOr(err != nil, layers != nil))
}

// symbolic layer body
func vfC05MvtLayer_N(tier int) int {
	if tier == 0 {
		return 5
	}
	return 8
}
func vfC05MvtLayer_Label(c int) string { return "body=" + strconv.Itoa(c) }

func vfC05MvtLayer(c int) {
	tile := vfFrame(0x1a, vfBytes("l", c))
	vfAllocLimit(vfMvtAllocCap)
	layers, err := Unmarshal(tile)
	vfReach("mvt-layer")
	vfAssert("ran", vfOr(err != nil, layers != nil))
}

// geometry-focused: concrete feature framing, symbolic geometry type, k fully symbolic 32-bit
// command/parameter words, each written as a fixed-width 5-byte varint (valid, non-canonical), so
// that every count / delta value is inside the claim without forking on the varint length.
func vfVarint5(v uint32) []byte {
	return []byte{byte(v&0x7f) | 0x80, byte((v>>7)&0x7f) | 0x80, byte((v>>14)&0x7f) | 0x80, byte((v>>21)&0x7f) | 0x80, byte(v >> 28)}
}

func vfC05MvtGeom_N(tier int) int {
	if tier == 0 {
		return 10
	}
	return 12
}
func vfC05MvtGeom_Label(c int) string { return "words=" + strconv.Itoa(c) }

func vfC05MvtGeom(c int) {
	var geom []byte
	for i := 0; i < c; i++ {
		geom = append(geom, vfVarint5(vfU32("w"+strconv.Itoa(i)))...)
	}
	feat := []byte{0x18, vfU8("geomtype") & 0x7f}
	feat = append(feat, vfFrame(0x22, geom)...)
	layer := append([]byte{0x0a, 1, 'a'}, vfFrame(0x12, feat)...)
	tile := vfFrame(0x1a, layer)
	vfAllocLimit(64*len(tile) + 4096)
	layers, err := Unmarshal(tile)
	vfReach("mvt-geom")
	vfAssert("ran", vfOr(err != nil, layers != nil))
}
