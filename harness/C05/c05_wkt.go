package wkt

import "strconv"

// hostile text: a keyword (or nothing) followed by m fully symbolic bytes, through the generic and
// all typed parsers. strconv.ParseFloat returns an arbitrary (value, error).

var vfC05Prefixes = []string{"", "POINT", "LINESTRING", "POLYGON", "MULTIPOINT", "MULTILINESTRING", "MULTIPOLYGON", "GEOMETRYCOLLECTION", "POINT(", "POLYGON((", "GEOMETRYCOLLECTION(POINT("}

func vfC05WktTail(tier int) int {
	if tier == 0 {
		return 5
	}
	return 6
}

func vfC05Wkt_N(tier int) int { return len(vfC05Prefixes) * vfC05WktTail(tier) }
func vfC05Wkt_Label(c int) string {
	return "prefix=" + strconv.Quote(vfC05Prefixes[c%len(vfC05Prefixes)]) + " tail=" + strconv.Itoa(c/len(vfC05Prefixes))
}

func vfC05Wkt(c int) {
	s := vfC05Prefixes[c%len(vfC05Prefixes)] + vfString("s", c/len(vfC05Prefixes))
	vfAllocLimit(1 << 16)
	g, err := Unmarshal(s)
	vfReach("wkt")
	vfAssert("value-or-error", vfOr(err != nil, g != nil))
	UnmarshalPoint(s)
	UnmarshalMultiPoint(s)
	UnmarshalLineString(s)
	UnmarshalMultiLineString(s)
	UnmarshalPolygon(s)
	UnmarshalMultiPolygon(s)
	UnmarshalCollection(s)
}
