package wkbcommon

import (
	"bytes"
	"strconv"

	"github.com/paulmach/orb"
)

// Hostile input: n fully symbolic bytes through every WKB decode path.
// Every Go run-time panic site reachable on a feasible path is a violation, and so is every
// make() whose size is not bounded by the documented caps (allocation monitor).

const vfAllocCap = 16*MaxPointsAlloc + 4096

func vfC05WkbN(tier int) int {
	if tier == 0 {
		return 15
	}
	return 24
}

func vfC05Unmarshal_N(tier int) int     { return vfC05WkbN(tier) }
func vfC05Unmarshal_Label(c int) string { return "len=" + strconv.Itoa(c) }

func vfC05Unmarshal(c int) {
	data := vfBytes("d", c)
	vfAllocLimit(vfAllocCap + 64*c)
	g, _, err := Unmarshal(data)
	vfReach("unmarshal")
	vfAssert("value-or-error", vfOr(err != nil, g != nil))
}

func vfC05Decode_N(tier int) int     { return vfC05WkbN(tier) }
func vfC05Decode_Label(c int) string { return "len=" + strconv.Itoa(c) }

func vfC05Decode(c int) {
	data := vfBytes("d", c)
	vfAllocLimit(vfAllocCap + 64*c)
	g, _, err := NewDecoder(bytes.NewReader(data)).Decode()
	vfReach("decode")
	vfAssert("value-or-error", vfOr(err != nil, g != nil))
}

var vfC05Dests = []string{"nil", "*Point", "*MultiPoint", "*LineString", "*MultiLineString", "*Ring", "*Polygon", "*MultiPolygon", "*Collection", "*Bound"}

func vfC05ScanN(tier int) int {
	if tier == 0 {
		return 12
	}
	return 16
}

func vfC05Scan_N(tier int) int { return vfC05ScanN(tier) * len(vfC05Dests) }
func vfC05Scan_Label(c int) string {
	return "len=" + strconv.Itoa(c/len(vfC05Dests)) + " into " + vfC05Dests[c%len(vfC05Dests)]
}

func vfC05Scan(c int) {
	n := c / len(vfC05Dests)
	data := vfBytes("d", n)
	vfAllocLimit(vfAllocCap + 64*n)
	var p orb.Point
	var mp orb.MultiPoint
	var ls orb.LineString
	var mls orb.MultiLineString
	var r orb.Ring
	var pg orb.Polygon
	var mpg orb.MultiPolygon
	var col orb.Collection
	var b orb.Bound
	var d interface{}
	switch c % len(vfC05Dests) {
	case 1:
		d = &p
	case 2:
		d = &mp
	case 3:
		d = &ls
	case 4:
		d = &mls
	case 5:
		d = &r
	case 6:
		d = &pg
	case 7:
		d = &mpg
	case 8:
		d = &col
	case 9:
		d = &b
	}
	_, _, ok, err := Scan(d, data)
	vfReach("scan")
	vfAssert("valid-implies-no-error", vfImplies(ok, err == nil))
}

// element counts at the arithmetic boundaries with a truncated payload: header concrete,
// count word fully symbolic (so 2^28, 2^28+1, 2^31, 2^32-1 are all inside), payload symbolic.
var vfC05Kinds = []uint32{pointType, lineStringType, polygonType, multiPointType, multiLineStringType, multiPolygonType, geometryCollectionType}

func vfC05Counts_N(tier int) int {
	return len(vfC05Kinds) * 2 * (4 + 2*tier)
}
func vfC05Counts_Label(c int) string {
	k := c % len(vfC05Kinds)
	o := (c / len(vfC05Kinds)) % 2
	pay := c / (2 * len(vfC05Kinds))
	return "type=" + strconv.Itoa(int(vfC05Kinds[k])) + " order=" + strconv.Itoa(o) + " payload=" + strconv.Itoa(pay*5)
}

func vfC05Counts(c int) {
	k := c % len(vfC05Kinds)
	o := (c / len(vfC05Kinds)) % 2
	pay := (c / (2 * len(vfC05Kinds))) * 5
	data := make([]byte, 0, 9+pay)
	if o == 1 {
		data = append(data, 1, byte(vfC05Kinds[k]), 0, 0, 0)
	} else {
		data = append(data, 0, 0, 0, 0, byte(vfC05Kinds[k]))
	}
	data = append(data, vfBytes("count", 4)...)
	data = append(data, vfBytes("payload", pay)...)
	vfAllocLimit(vfAllocCap + 64*len(data))
	_, _, err := Unmarshal(data)
	vfReach("counts-unmarshal")
	_, _, err2 := NewDecoder(bytes.NewReader(data)).Decode()
	vfAssert("ran", vfOr(vfOr(err == nil, err != nil), err2 == nil))
}
