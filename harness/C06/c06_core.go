package orb

import "strconv"

func vfShapeLabel(c int) string { return vfShapes()[c].name }

// ---- Clone: equal, deep (no shared memory), same structure ----

func vfC06Clone_N(tier int) int     { return vfShapeCount(tier) }
func vfC06Clone_Label(c int) string { return vfShapeLabel(c) }

func vfC06Clone(c int) {
	g := vfShapes()[c].mk(&vfGen{})
	before := vfSnapshot(g)
	cl := Clone(g)
	vfReach("clone")
	vfAssert("clone-equal", Equal(cl, g))
	vfAssert("clone-equal-sym", Equal(g, cl))
	vfAssert("clone-same-structure", vfSig(cl) == vfSig(g))
	vfAssert("clone-no-shared-memory", vfDisjoint(cl, g))
	vfAssert("clone-leaves-original", vfUnchanged(g, before))
	// nil-ness is preserved
	a, b := vfCoords(g), vfCoords(cl)
	vfAssert("clone-coords-len", len(a) == len(b))
	for i := range a {
		vfAssert("clone-coord-identical", a[i] == b[i])
	}
}

// ---- Equal: holds exactly when structure and every coordinate agree ----

func vfC06Equal_N(tier int) int     { return vfShapeCount(tier) }
func vfC06Equal_Label(c int) string { return vfShapeLabel(c) }

func vfC06Equal(c int) {
	g := vfShapes()[c].mk(&vfGen{pfx: "g"})
	h := vfShapes()[c].mk(&vfGen{pfx: "h"})
	a, b := vfCoords(g), vfCoords(h)
	all := true
	for i := range a {
		all = vfAnd(all, a[i] == b[i])
	}
	vfReach("equal")
	eq := Equal(g, h)
	vfAssert("equal-iff-coords", eq == all)
	vfAssert("equal-symmetric", Equal(h, g) == eq)
	vfAssert("equal-reflexive", Equal(g, g))
}

// different structure => not equal (both orders); pairs of shapes enumerated
func vfC06EqualCross_N(tier int) int {
	n := vfShapeCount(tier)
	return n * n
}
func vfC06EqualCross_Label(c int) string {
	n := len(vfShapes())
	_ = n
	return "pair#" + strconv.Itoa(c)
}

func vfC06EqualCross(c int) {
	// decode pair against the full catalogue width of the tier the index came from
	n := vfShapeCount(1)
	if c < vfShapeCount(0)*vfShapeCount(0) {
		n = vfShapeCount(0)
	}
	i, j := c/n, c%n
	g := vfShapes()[i].mk(&vfGen{pfx: "g", mode: 2})
	h := vfShapes()[j].mk(&vfGen{pfx: "h", mode: 2})
	vfReach("equal-cross")
	if vfSig(g) != vfSig(h) {
		// different kind or nesting: never equal, whatever the coordinates (symbolic on both sides)
		sg := vfShapes()[i].mk(&vfGen{pfx: "g"})
		sh := vfShapes()[j].mk(&vfGen{pfx: "h"})
		vfAssert("equal-different-structure-false", !Equal(sg, sh))
		return
	}
	a, b := vfCoords(g), vfCoords(h)
	same := len(a) == len(b)
	for k := range a {
		if k < len(b) && a[k] != b[k] {
			same = false
		}
	}
	if same {
		vfAssert("equal-same-structure-same-coords", Equal(g, h))
	} else {
		vfAssert("equal-same-structure-different-coords-false", !Equal(g, h))
	}
}

// ---- Bound: the tight box of the vertices; empty exactly when there are none ----

func vfC06Bound_N(tier int) int     { return vfShapeCount(tier) }
func vfC06Bound_Label(c int) string { return vfShapeLabel(c) }

func vfC06Bound(c int) {
	g := vfShapes()[c].mk(&vfGen{})
	vs := vfBoundVertices(g)
	b := g.Bound()
	vfReach("bound")
	if len(vs) == 0 {
		vfAssert("bound-empty-when-no-vertices", b.IsEmpty())
		return
	}
	minx, miny, maxx, maxy := vs[0][0], vs[0][1], vs[0][0], vs[0][1]
	for _, v := range vs[1:] {
		minx = vfIteF(v[0] < minx, v[0], minx)
		miny = vfIteF(v[1] < miny, v[1], miny)
		maxx = vfIteF(v[0] > maxx, v[0], maxx)
		maxy = vfIteF(v[1] > maxy, v[1], maxy)
	}
	vfAssert("bound-tight-minx", b.Min[0] == minx)
	vfAssert("bound-tight-miny", b.Min[1] == miny)
	vfAssert("bound-tight-maxx", b.Max[0] == maxx)
	vfAssert("bound-tight-maxy", b.Max[1] == maxy)
	vfAssert("bound-not-empty", !b.IsEmpty())
}

// ---- Bound lattice laws ----

func vfBoundSym(p string, kind int) Bound {
	// kind 0: well-formed symbolic bound; 1: the empty sentinel returned for vertex-less geometries
	if kind == 1 {
		return MultiPoint{}.Bound()
	}
	b := Bound{Min: Point{vfReal(p + ".minx"), vfReal(p + ".miny")}, Max: Point{vfReal(p + ".maxx"), vfReal(p + ".maxy")}}
	vfAssume(vfAnd(b.Min[0] <= b.Max[0], b.Min[1] <= b.Max[1]))
	return b
}

func vfBoundEq(a, b Bound) bool {
	return vfAnd(vfAnd(a.Min[0] == b.Min[0], a.Min[1] == b.Min[1]), vfAnd(a.Max[0] == b.Max[0], a.Max[1] == b.Max[1]))
}

// same point set: equal, or both empty
func vfBoundSame(a, b Bound) bool {
	return vfOr(vfBoundEq(a, b), vfAnd(a.IsEmpty(), b.IsEmpty()))
}

func vfC06Lattice_N(tier int) int { return 8 }
func vfC06Lattice_Label(c int) string {
	return "empty-mask=" + strconv.Itoa(c)
}

func vfC06Lattice(c int) {
	a := vfBoundSym("a", c&1)
	b := vfBoundSym("b", (c>>1)&1)
	d := vfBoundSym("d", (c>>2)&1)
	p := Point{vfReal("p.x"), vfReal("p.y")}
	vfReach("lattice")
	vfAssert("union-commutative", vfBoundSame(a.Union(b), b.Union(a)))
	vfAssert("union-associative", vfBoundSame(a.Union(b).Union(d), a.Union(b.Union(d))))
	vfAssert("union-idempotent", vfBoundSame(a.Union(a), a))
	u := a.Union(b)
	// the union contains exactly... at least every point of both, and is the smallest such box
	vfAssert("union-upper-bound-a", vfImplies(a.Contains(p), u.Contains(p)))
	vfAssert("union-upper-bound-b", vfImplies(b.Contains(p), u.Contains(p)))
	if c&4 == 0 {
		// d well-formed: if d contains the corners of a and b then it contains the corners of the union
		cov := vfAnd(vfImplies(!a.IsEmpty(), vfAnd(d.Contains(a.Min), d.Contains(a.Max))),
			vfImplies(!b.IsEmpty(), vfAnd(d.Contains(b.Min), d.Contains(b.Max))))
		vfAssert("union-least", vfImplies(vfAnd(cov, !u.IsEmpty()), vfAnd(d.Contains(u.Min), d.Contains(u.Max))))
	}
	vfAssert("union-absorbs-contained", vfImplies(vfAnd(!b.IsEmpty(), vfAnd(a.Contains(b.Min), a.Contains(b.Max))), vfBoundSame(a.Union(b), a)))
	if c&1 == 0 {
		e := a.Extend(p)
		vfAssert("extend-contains-point", e.Contains(p))
		vfAssert("extend-keeps-corners", vfAnd(e.Contains(a.Min), e.Contains(a.Max)))
		vfAssert("extend-noop-when-contained", vfImplies(a.Contains(p), vfBoundEq(e, a)))
		q := Point{vfReal("q.x"), vfReal("q.y")}
		vfAssert("extend-monotone", vfImplies(a.Contains(q), e.Contains(q)))
		vfAssert("contains-corners", vfAnd(a.Contains(a.Min), a.Contains(a.Max)))
		vfAssert("contains-iff-coords", a.Contains(p) == vfAnd(vfAnd(a.Min[0] <= p[0], p[0] <= a.Max[0]), vfAnd(a.Min[1] <= p[1], p[1] <= a.Max[1])))
	}
	if c&1 == 1 {
		// empty receiver (the Bound() of a vertex-less geometry): Extend still "grows the bound to
		// include the new point", and nothing else is lost by it
		e := a.Extend(p)
		vfAssert("extend-empty-contains-point", e.Contains(p))
		vfAssert("extend-empty-not-empty", !e.IsEmpty())
		vfAssert("extend-empty-upper-bound-of-union", vfAnd(e.Contains(a.Union(p.Bound()).Min), e.Contains(a.Union(p.Bound()).Max)))
		vfAssert("empty-contains-nothing", !a.Contains(p))
	}
	if c&3 == 0 {
		vfAssert("intersects-symmetric", a.Intersects(b) == b.Intersects(a))
		// intersects <=> the boxes share a point: max of mins <= min of maxs on both axes
		lox := vfIteF(a.Min[0] > b.Min[0], a.Min[0], b.Min[0])
		hix := vfIteF(a.Max[0] < b.Max[0], a.Max[0], b.Max[0])
		loy := vfIteF(a.Min[1] > b.Min[1], a.Min[1], b.Min[1])
		hiy := vfIteF(a.Max[1] < b.Max[1], a.Max[1], b.Max[1])
		vfAssert("intersects-iff-common-point", a.Intersects(b) == vfAnd(lox <= hix, loy <= hiy))
		vfAssert("intersects-witness", vfImplies(vfAnd(a.Contains(p), b.Contains(p)), a.Intersects(b)))
		vfAssert("intersects-self", a.Intersects(a))
	}
}

// ---- Reverse / Orientation ----

func vfC06Reverse_N(tier int) int     { return 6 + 2*tier }
func vfC06Reverse_Label(c int) string { return "len=" + strconv.Itoa(c-1) }

func vfC06Reverse(c int) {
	g := &vfGen{}
	ls := LineString(g.pts(c - 1)) // -1: nil
	orig := append([]Point{}, ls...)
	n := len(ls)
	ls.Reverse()
	vfReach("reverse")
	vfAssert("reverse-len", len(ls) == n)
	for i := 0; i < n; i++ {
		vfAssert("reverse-order", vfAnd(ls[i][0] == orig[n-1-i][0], ls[i][1] == orig[n-1-i][1]))
	}
	ls.Reverse()
	for i := 0; i < n; i++ {
		vfAssert("reverse-twice-identity", vfAnd(ls[i][0] == orig[i][0], ls[i][1] == orig[i][1]))
	}
	r := Ring(g.pts(c - 1))
	r.Reverse()
	vfAssert("ring-reverse-len", len(r) == n)
}

func vfC06Orientation_N(tier int) int { return 6 + tier }
func vfC06Orientation_Label(c int) string {
	return []string{"nil", "empty", "1", "2", "3+close", "4+close", "5+close"}[c]
}

func vfC06Orientation(c int) {
	g := &vfGen{}
	var r Ring
	switch c {
	case 0:
		r = nil
	case 1:
		r = Ring{}
	case 2:
		r = Ring(g.pts(1))
	case 3:
		r = Ring(g.pts(2))
	default:
		r = g.closed(c - 1)
	}
	o := r.Orientation()
	vfReach("orientation")
	if len(r) < 4 {
		vfAssert("orientation-degenerate-zero", o == 0)
		return
	}
	// independent shoelace (twice the signed area)
	area2 := 0.0
	for i := 0; i+1 < len(r); i++ {
		area2 += r[i][0]*r[i+1][1] - r[i+1][0]*r[i][1]
	}
	vfAssert("orientation-sign-ccw", (o == CCW) == (area2 > 0))
	vfAssert("orientation-sign-cw", (o == CW) == (area2 < 0))
	rr := r.Clone()
	rr.Reverse()
	vfAssert("orientation-reversed-negated", rr.Orientation() == -o)
}

// ---- Bound as a value: Equal, Bound(), ToRing/ToPolygon, accessors, Pad, Center ----

func vfC06BoundOps_N(tier int) int { return 2 }
func vfC06BoundOps_Label(c int) string {
	return []string{"positive-area", "degenerate-allowed"}[c]
}

func vfC06BoundOps(c int) {
	a := vfBoundSym("a", 0)
	b := vfBoundSym("b", 0)
	if c == 0 {
		vfAssume(vfAnd(a.Min[0] < a.Max[0], a.Min[1] < a.Max[1]))
	}
	vfReach("boundops")
	vfAssert("bound-equal-iff-coords", a.Equal(b) == vfBoundEq(a, b))
	vfAssert("bound-equal-generic", Equal(a, b) == vfBoundEq(a, b))
	vfAssert("bound-of-bound-is-itself", vfBoundEq(a.Bound(), a))
	r := a.ToRing()
	vfAssert("toring-five-closed", vfAnd(len(r) == 5, vfAnd(r[0][0] == r[4][0], r[0][1] == r[4][1])))
	vfAssert("toring-bound-is-the-box", vfBoundEq(r.Bound(), a))
	for i := 0; i < len(r); i++ {
		vfAssert("toring-vertices-are-corners", vfAnd(vfOr(r[i][0] == a.Min[0], r[i][0] == a.Max[0]), vfOr(r[i][1] == a.Min[1], r[i][1] == a.Max[1])))
	}
	if c == 0 {
		vfAssert("toring-ccw", r.Orientation() == CCW)
	}
	pg := a.ToPolygon()
	vfAssert("topolygon-one-ring", vfAnd(len(pg) == 1, vfBoundEq(pg.Bound(), a)))
	vfAssert("accessors", vfAnd(vfAnd(a.Top() == a.Max[1], a.Bottom() == a.Min[1]), vfAnd(a.Left() == a.Min[0], a.Right() == a.Max[0])))
	lt, rb := a.LeftTop(), a.RightBottom()
	vfAssert("corner-accessors", vfAnd(vfAnd(lt[0] == a.Min[0], lt[1] == a.Max[1]), vfAnd(rb[0] == a.Max[0], rb[1] == a.Min[1])))
	ce := a.Center()
	vfAssert("center-inside", a.Contains(ce))
	vfAssert("center-midpoint", vfAnd(ce[0]-a.Min[0] == a.Max[0]-ce[0], ce[1]-a.Min[1] == a.Max[1]-ce[1]))
	d := vfReal("d")
	vfAssume(d >= 0)
	p := a.Pad(d)
	vfAssert("pad-contains-original", vfAnd(p.Contains(a.Min), p.Contains(a.Max)))
	vfAssert("pad-exact", vfAnd(vfAnd(a.Min[0]-p.Min[0] == d, a.Min[1]-p.Min[1] == d), vfAnd(p.Max[0]-a.Max[0] == d, p.Max[1]-a.Max[1] == d)))
	vfAssert("pad-union-absorbs", vfBoundEq(p.Union(a), p))
	vfAssert("iszero-iff-all-zero", a.IsZero() == vfAnd(vfAnd(a.Min[0] == 0, a.Min[1] == 0), vfAnd(a.Max[0] == 0, a.Max[1] == 0)))
}
