package mvt

import (
	"strconv"

	"github.com/paulmach/orb"
	"github.com/paulmach/orb/maptile"
)

// Tile pixel -> WGS84 -> tile pixel, x axis, IEEE-754 arithmetic on the real code. The x axis of the
// mercator projection is affine (no transcendental function), so it is decided bit-precisely; the
// y axis goes through exp/atan/sin/log and is not decidable here (its pixel row is concrete).

var vfPixCases = [][2]int{{0, 4096}, {3, 4096}, {10, 4096}, {14, 512}, {22, 256}, {1, 8192}, {7, 1024}, {18, 2048}}

func vfC15PixelX_N(tier int) int { return 3 + 5*tier }
func vfC15PixelX_Label(c int) string {
	return "zoom=" + strconv.Itoa(vfPixCases[c][0]) + " extent=" + strconv.Itoa(vfPixCases[c][1])
}

func vfC15PixelX(c int) {
	z := maptile.Zoom(vfPixCases[c][0])
	extent := uint32(vfPixCases[c][1])
	tx := vfU32("tilex")
	vfAssume(tx < uint32(1)<<uint32(z))
	tile := maptile.Tile{X: tx, Y: (uint32(1) << uint32(z)) / 2, Z: z}
	px := vfI32("px")
	vfAssume(vfAnd(px >= -int32(extent), px < 2*int32(extent)))
	proj := newProjection(tile, extent)
	p := orb.Point{float64(px), 100}
	ll := proj.ToWGS84(p)
	back := proj.ToTile(ll)
	vfReach("pixel-x")
	vfAssert("pixel-x-roundtrip-exact", back[0] == float64(px))
}

// non power of two extents: reported separately by the property (no half-pixel offset)
func vfC15NonPow2_N(tier int) int     { return 2 }
func vfC15NonPow2_Label(c int) string { return []string{"extent=1000 zoom=0", "extent=3000 zoom=5"}[c] }

func vfC15NonPow2(c int) {
	z := maptile.Zoom([]int{0, 5}[c])
	extent := uint32([]int{1000, 3000}[c])
	tile := maptile.Tile{X: 0, Y: 0, Z: z}
	px := vfI32("px")
	vfAssume(vfAnd(px >= 0, px < int32(extent)))
	proj := newProjection(tile, extent)
	ll := proj.ToWGS84(orb.Point{float64(px), 100})
	back := proj.ToTile(ll)
	vfReach("nonpow2")
	vfAssert("nonpow2-pixel-x-roundtrip", back[0] == float64(px))
}

// ---- y axis (and both axes together) at catalogue coordinates: concrete runs ----
// The y axis is transcendental, no solver decision is possible; these cases execute the real
// ToWGS84/ToTile pair on a catalogue of integer coordinates in [-extent, 2*extent) - including the
// buffer above the first and below the last tile row - for tiles on the first, a middle and the last
// row at 10 zooms and 4 power-of-two extents, and demand the exact integers back.

var vfPYZooms = []int{0, 1, 2, 3, 4, 8, 12, 16, 20, 22}
var vfPYExtents = []int{256, 512, 4096, 8192}

const vfPYCoords = 12

func vfPYCase(c int) (tile maptile.Tile, e int, p orb.Point, row int) {
	k := c % vfPYCoords
	c /= vfPYCoords
	row = c % 3
	c /= 3
	z := maptile.Zoom(vfPYZooms[c/len(vfPYExtents)])
	e = vfPYExtents[c%len(vfPYExtents)]
	n := uint32(1) << uint32(z)
	ty := uint32(0)
	switch row {
	case 1:
		ty = n / 2
	case 2:
		ty = n - 1
	}
	tile = maptile.Tile{X: n / 3, Y: ty, Z: z}
	coords := []int{-e, -e/2 - 1, -64, -1, 0, 1, e/2 - 1, e / 2, e - 1, e, e + 64, 2*e - 1}
	return tile, e, orb.Point{float64(coords[(k*5+3)%len(coords)]), float64(coords[k])}, row
}

func vfC15PixelY_N(tier int) int { return len(vfPYZooms) * len(vfPYExtents) * 3 * vfPYCoords }
func vfC15PixelY_Label(c int) string {
	tile, e, p, row := vfPYCase(c)
	ll := newProjection(tile, uint32(e)).ToWGS84(p)
	cap := ""
	if ll[1] > 89.1897 || ll[1] < -89.1897 {
		// |sin(lat)| > 0.9999: the band mercator.ToPlanar clamps
		cap = " polar-cap(|lat|>89.1897)"
	}
	return "zoom=" + strconv.Itoa(int(tile.Z)) + " extent=" + strconv.Itoa(e) + " row=" + []string{"first", "middle", "last"}[row] +
		" x=" + strconv.Itoa(int(p[0])) + " y=" + strconv.Itoa(int(p[1])) + cap
}

func vfC15PixelY(c int) {
	tile, e, p, _ := vfPYCase(c)
	proj := newProjection(tile, uint32(e))
	vfReach("pixel-y")
	back := proj.ToTile(proj.ToWGS84(p))
	vfAssert("pixel-roundtrip-exact", back[0] == p[0] && back[1] == p[1])
}
