package mvt

import (
	"strconv"

	"github.com/paulmach/orb"
	"github.com/paulmach/orb/maptile"
)

// Tile pixel -> WGS84 -> tile pixel, x axis, IEEE-754 arithmetic on the real code. The x axis of the
// mercator projection is affine (no transcendental function), so it is decided bit-precisely; the
// y axis goes through exp/atan/sin/log and is not decidable here (its pixel row is concrete).

var vfPixCases = [][2]int{{0, 4096}, {3, 4096}, {10, 4096}, {14, 512}, {22, 256}, {1, 8192}, {7, 1024}, {18, 2048}}

func vfC15PixelX_N(tier int) int { return 3 + 5*tier }
func vfC15PixelX_Label(c int) string {
	return "zoom=" + strconv.Itoa(vfPixCases[c][0]) + " extent=" + strconv.Itoa(vfPixCases[c][1])
}

func vfC15PixelX(c int) {
	z := maptile.Zoom(vfPixCases[c][0])
	extent := uint32(vfPixCases[c][1])
	tx := vfU32("tilex")
	vfAssume(tx < uint32(1)<<uint32(z))
	tile := maptile.Tile{X: tx, Y: (uint32(1) << uint32(z)) / 2, Z: z}
	px := vfI32("px")
	vfAssume(vfAnd(px >= -int32(extent), px < 2*int32(extent)))
	proj := newProjection(tile, extent)
	p := orb.Point{float64(px), 100}
	ll := proj.ToWGS84(p)
	back := proj.ToTile(ll)
	vfReach("pixel-x")
	vfAssert("pixel-x-roundtrip-exact", back[0] == float64(px))
}

// non power of two extents: reported separately by the property (no half-pixel offset)
func vfC15NonPow2_N(tier int) int     { return 2 }
func vfC15NonPow2_Label(c int) string { return []string{"extent=1000 zoom=0", "extent=3000 zoom=5"}[c] }

func vfC15NonPow2(c int) {
	z := maptile.Zoom([]int{0, 5}[c])
	extent := uint32([]int{1000, 3000}[c])
	tile := maptile.Tile{X: 0, Y: 0, Z: z}
	px := vfI32("px")
	vfAssume(vfAnd(px >= 0, px < int32(extent)))
	proj := newProjection(tile, extent)
	ll := proj.ToWGS84(orb.Point{float64(px), 100})
	back := proj.ToTile(ll)
	vfReach("nonpow2")
	vfAssert("nonpow2-pixel-x-roundtrip", back[0] == float64(px))
}
