package project

import (
	"strconv"

	"github.com/paulmach/orb"
)

// Applying a projection to a geometry applies it to every vertex exactly once, in place,
// preserving kind, nesting, lengths and order, for an arbitrary (uninterpreted) point function.

func vfC15Structure_N(tier int) int     { return vfShapeCount(tier) }
func vfC15Structure_Label(c int) string { return vfShapes()[c].name }

func vfC15Structure(c int) {
	g := vfShapes()[c].mk(&vfGen{})
	want := vfCoords(g)
	sig := vfSig(g)
	calls := 0
	f := func(p orb.Point) orb.Point {
		calls++
		return orb.Point{vfUF2("fx", p[0], p[1]), vfUF2("fy", p[0], p[1])}
	}
	out := Geometry(g, f)
	vfReach("structure")
	vfAssert("same-kind-nesting-lengths", vfSig(out) == sig)
	got := vfCoords(out)
	vfAssert("same-number-of-coordinates", len(got) == len(want))
	if _, isB := g.(orb.Bound); isB {
		b := out.(orb.Bound)
		// the projected bound is the box of the two projected corners
		x1, y1 := vfUF2("fx", want[0], want[1]), vfUF2("fy", want[0], want[1])
		x2, y2 := vfUF2("fx", want[2], want[3]), vfUF2("fy", want[2], want[3])
		vfAssert("bound-is-box-of-projected-corners", vfAnd(vfAnd(b.Min[0] == vfIteF(x1 < x2, x1, x2), b.Max[0] == vfIteF(x1 > x2, x1, x2)), vfAnd(b.Min[1] == vfIteF(y1 < y2, y1, y2), b.Max[1] == vfIteF(y1 > y2, y1, y2))))
		return
	}
	hasBound := false
	var walk func(g orb.Geometry)
	walk = func(g orb.Geometry) {
		switch t := g.(type) {
		case orb.Bound:
			hasBound = true
		case orb.Collection:
			for _, m := range t {
				walk(m)
			}
		}
	}
	walk(g)
	if hasBound {
		return
	}
	vfAssert("each-vertex-projected-exactly-once", calls == len(want)/2)
	for i := 0; i+1 < len(want) && i+1 < len(got); i += 2 {
		vfAssert("vertex-i-is-f-of-vertex-i", vfAnd(got[i] == vfUF2("fx", want[i], want[i+1]), got[i+1] == vfUF2("fy", want[i], want[i+1])))
	}
	// in place: the argument now holds the projected vertices
	again := vfCoords(g)
	if _, isPt := g.(orb.Point); !isPt {
		for i := range again {
			if i < len(got) {
				vfAssert("projected-in-place", again[i] == got[i])
			}
		}
	}
	_ = strconv.Itoa
}
