package project

import (
	"strconv"

	"github.com/paulmach/orb"
)

// Applying a projection to a geometry applies it to every vertex exactly once, in place,
// preserving kind, nesting, lengths and order, for an arbitrary (uninterpreted) point function.

func vfC15Structure_N(tier int) int     { return vfShapeCount(tier) }
func vfC15Structure_Label(c int) string { return vfShapes()[c].name }

func vfC15Structure(c int) {
	g := vfShapes()[c].mk(&vfGen{})
	want := vfCoords(g)
	sig := vfSig(g)
	calls := 0
	f := func(p orb.Point) orb.Point {
		calls++
		return orb.Point{vfUF2("fx", p[0], p[1]), vfUF2("fy", p[0], p[1])}
	}
	out := Geometry(g, f)
	vfReach("structure")
	vfAssert("same-kind-nesting-lengths", vfSig(out) == sig)
	got := vfCoords(out)
	vfAssert("same-number-of-coordinates", len(got) == len(want))
	if _, isB := g.(orb.Bound); isB {
		return // bounds: see vfC15Bound (affine projections with symbolic coefficients)
	}
	hasBound := false
	var walk func(g orb.Geometry)
	walk = func(g orb.Geometry) {
		switch t := g.(type) {
		case orb.Bound:
			hasBound = true
		case orb.Collection:
			for _, m := range t {
				walk(m)
			}
		}
	}
	walk(g)
	if hasBound {
		return
	}
	vfAssert("each-vertex-projected-exactly-once", calls == len(want)/2)
	for i := 0; i+1 < len(want) && i+1 < len(got); i += 2 {
		vfAssert("vertex-i-is-f-of-vertex-i", vfAnd(got[i] == vfUF2("fx", want[i], want[i+1]), got[i+1] == vfUF2("fy", want[i], want[i+1])))
	}
	// in place: the argument now holds the projected vertices
	again := vfCoords(g)
	if _, isPt := g.(orb.Point); !isPt {
		for i := range again {
			if i < len(got) {
				vfAssert("projected-in-place", again[i] == got[i])
			}
		}
	}
	_ = strconv.Itoa
}

// ---- the projected bound is the box of the two projected corners: affine projections with
// symbolic coefficients (axis flips and swaps included), natively replayable ----

func vfC15Bound_N(tier int) int     { return 2 }
func vfC15Bound_Label(c int) string { return []string{"axis-wise affine", "axis swap"}[c] }

func vfC15Bound(c int) {
	a, b, cc, d := vfReal("a"), vfReal("b"), vfReal("c"), vfReal("d")
	f := func(p orb.Point) orb.Point { return orb.Point{a*p[0] + b, cc*p[1] + d} }
	if c == 1 {
		f = func(p orb.Point) orb.Point { return orb.Point{a*p[1] + b, cc*p[0] + d} }
	}
	bd := orb.Bound{Min: orb.Point{vfReal("minx"), vfReal("miny")}, Max: orb.Point{vfReal("maxx"), vfReal("maxy")}}
	vfAssume(vfAnd(bd.Min[0] <= bd.Max[0], bd.Min[1] <= bd.Max[1]))
	p1, p2 := f(bd.Min), f(bd.Max)
	vfReach("bound")
	check := func(id string, got orb.Bound) {
		vfAssert(id+"-minx", got.Min[0] == vfIteF(p1[0] < p2[0], p1[0], p2[0]))
		vfAssert(id+"-maxx", got.Max[0] == vfIteF(p1[0] > p2[0], p1[0], p2[0]))
		vfAssert(id+"-miny", got.Min[1] == vfIteF(p1[1] < p2[1], p1[1], p2[1]))
		vfAssert(id+"-maxy", got.Max[1] == vfIteF(p1[1] > p2[1], p1[1], p2[1]))
	}
	check("bound-helper", Bound(bd, f))
	g := Geometry(bd, f)
	gb, ok := g.(orb.Bound)
	vfAssert("generic-returns-bound", ok)
	if ok {
		check("bound-generic", gb)
	}
	col := Geometry(orb.Collection{bd}, f).(orb.Collection)
	check("bound-in-collection", col[0].(orb.Bound))
}
