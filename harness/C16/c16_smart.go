package smartclip

import (
	"strconv"

	"github.com/paulmach/orb"
)

var vfBox = orb.Bound{Min: orb.Point{0, 0}, Max: orb.Point{4, 4}}

func vfArea2(r orb.Ring) float64 {
	s := 0.0
	n := len(r)
	for i := 0; i < n; i++ {
		j := (i + 1) % n
		s += r[i][0]*r[j][1] - r[j][0]*r[i][1]
	}
	return s
}

func vfSidePoint(side int, t float64) orb.Point {
	switch side {
	case 1:
		return orb.Point{vfBox.Min[0], t}
	case 2:
		return orb.Point{t, vfBox.Min[1]}
	case 3:
		return orb.Point{vfBox.Max[0], t}
	}
	return orb.Point{t, vfBox.Max[1]}
}

// perimeter parameter of vfSidePoint(side, t): counter-clockwise from the corner (0,0), in [0,16)
func vfPerim(side int, t float64) float64 {
	var s float64
	switch side {
	case 1:
		s = 16 - t
	case 2:
		s = t
	case 3:
		s = 4 + t
	default:
		s = 12 - t
	}
	return vfIteF(s >= 16, s-16, s)
}

// counter-clockwise distance from a to b along the perimeter, in [0,16)
func vfCycDist(a, b float64) float64 { return vfIteF(b >= a, b-a, b-a+16) }

// ---- aroundBound: endpoints anywhere on enumerated sides (corners included), both windings ----

func vfC16Around_N(tier int) int { return 4 * 4 * 2 }
func vfC16Around_Label(c int) string {
	return "from-side=" + strconv.Itoa(c%4+1) + " to-side=" + strconv.Itoa((c/4)%4+1) + " o=" + []string{"CCW", "CW"}[c/16]
}

func vfC16Around(c int) {
	s1, s2 := c%4+1, (c/4)%4+1
	o := orb.CCW
	if c/16 == 1 {
		o = orb.CW
	}
	t1, t2 := vfReal("t1"), vfReal("t2")
	vfAssume(vfAnd(vfAnd(t1 >= 0, t1 <= 4), vfAnd(t2 >= 0, t2 <= 4)))
	f, l := vfSidePoint(s1, t1), vfSidePoint(s2, t2)
	vfAssume(vfNot(vfAnd(f[0] == l[0], f[1] == l[1])))
	out := aroundBound(vfBox, orb.Ring{f, l}, o)
	vfReach("around")
	n := len(out)
	vfAssert("around-closed", vfAnd(out[0][0] == out[n-1][0], out[0][1] == out[n-1][1]))
	vfAssert("around-bounded-walk", n <= 2+8+1)
	for i := 2; i < n-1; i++ {
		p := out[i]
		onB := vfOr(vfOr(p[0] == 0, p[0] == 4), vfOr(p[1] == 0, p[1] == 4))
		special := vfAnd(vfOr(vfOr(p[0] == 0, p[0] == 2), p[0] == 4), vfOr(vfOr(p[1] == 0, p[1] == 2), p[1] == 4))
		vfAssert("around-added-vertex-is-corner-or-midpoint", vfAnd(onB, special))
	}
	// every box corner strictly between l and f along the walk (l -> f in the requested direction)
	// is among the added vertices: perimeter parameter in [0,16), counter-clockwise from (0,0)
	sf, sl := vfPerim(s1, t1), vfPerim(s2, t2)
	from, to := sl, sf
	if o == orb.CW {
		from, to = sf, sl // walking clockwise from l to f passes what a counter-clockwise walk from f to l passes
	}
	span := vfCycDist(from, to)
	corners := []orb.Point{{0, 0}, {4, 0}, {4, 4}, {0, 4}}
	for k, cpt := range corners {
		d := vfCycDist(from, float64(4*k))
		between := vfAnd(d > 0, d < span)
		present := false
		for i := 2; i < n-1; i++ {
			present = vfOr(present, vfAnd(out[i][0] == cpt[0], out[i][1] == cpt[1]))
		}
		vfAssert("around-passes-every-corner-between", vfImplies(between, present))
	}
	// the wrap polygon (l -> around the box -> f) has the requested winding (or no area)
	a := vfArea2(out[1:])
	if o == orb.CCW {
		vfAssert("around-winding-ccw", a >= 0)
	} else {
		vfAssert("around-winding-cw", a <= 0)
	}
}

// ---- whole rings: catalogue shapes, symbolic interior query point ----

var vfRings = []orb.Ring{
	{{-1, 1}, {5, 1}, {5, 3}, {-1, 3}, {-1, 1}},                            // band through two sides
	{{2, -1}, {5, 2}, {2, 5}, {-1, 2}, {2, -1}},                            // diamond cutting all four corners off
	{{-2, -2}, {6, -2}, {6, 6}, {-2, 6}, {-2, -2}},                         // encloses the box
	{{1, 1}, {3, 1}, {3, 3}, {1, 3}, {1, 1}},                               // wholly inside
	{{5, 5}, {6, 5}, {6, 6}, {5, 5}},                                       // wholly outside
	{{2, 2}, {6, 2}, {6, 6}, {2, 6}, {2, 2}},                               // covers the top right corner
	{{-1, -1}, {2, -1}, {2, 2}, {-1, 2}, {-1, -1}},                         // covers the bottom left corner
	{{1, -1}, {3, -1}, {3, 5}, {1, 5}, {1, -1}},                            // vertical band
	{{-1, -1}, {5, -1}, {5, 1}, {1, 1}, {1, 3}, {5, 3}, {5, 5}, {-1, 5}, {-1, -1}}, // C shape: two pieces on the right side
	{{0, 1}, {4, 1}, {4, 3}, {0, 3}, {0, 1}},                               // vertices on the box edges
	{{0, 0}, {4, 0}, {4, 4}, {0, 4}, {0, 0}},                               // exactly the box
	{{2, 1}, {5, 2}, {2, 3}, {-1, 2}, {2, 1}},                              // thin diamond through left and right
	{{-1, 0}, {2, 0}, {2, 2}, {-1, 2}, {-1, 0}},                            // edge along the bottom side
	{{2, -1}, {3, 2}, {6, 2}, {3, 3}, {2, 6}, {1, 3}, {-2, 2}, {1, 2}, {2, -1}}, // star through all four sides
}

// rings that touch one side of the box from inside with a vertex exactly on it (once: in through one
// neighbouring side and out through the other; twice: a "W"), for each of the four sides
func init() {
	rot := func(r orb.Ring) orb.Ring {
		o := make(orb.Ring, len(r))
		for i, p := range r {
			o[i] = orb.Point{4 - p[1], p[0]}
		}
		return o
	}
	once := orb.Ring{{-1, 2}, {2, 0}, {5, 2}, {5, 5}, {-1, 5}, {-1, 2}}
	twice := orb.Ring{{0.5, 5}, {1, 0}, {2, 2}, {3, 0}, {3.5, 5}, {0.5, 5}}
	for k := 0; k < 4; k++ {
		vfRings = append(vfRings, once, twice)
		once, twice = rot(once), rot(twice)
	}
	// two result polygons that touch at a vertex lying exactly on a side, the second one leaving the box
	// again through that side; all four sides, and the mirror image (the catalogue runs every ring as
	// listed with CCW and reversed with CW)
	kiss := orb.Ring{{-1, 5}, {-1, 1.5}, {1.5, 1.5}, {1, 4}, {2, 3}, {3, 5}, {-1, 5}}
	mirror := make(orb.Ring, len(kiss))
	for i, p := range kiss {
		mirror[len(kiss)-1-i] = orb.Point{4 - p[0], p[1]}
	}
	for k := 0; k < 4; k++ {
		vfRings = append(vfRings, kiss, mirror)
		kiss, mirror = rot(kiss), rot(mirror)
	}
}

func vfEvenOdd(r orb.Ring, q orb.Point) bool {
	in := false
	n := len(r)
	for i := 0; i < n; i++ {
		s, e := r[i], r[(i+1)%n]
		if s[1] == e[1] {
			continue
		}
		if s[1] > e[1] {
			s, e = e, s
		}
		straddle := vfAnd(s[1] <= q[1], q[1] < e[1])
		left := (q[0]-s[0])*(e[1]-s[1]) < (q[1]-s[1])*(e[0]-s[0])
		cross := vfAnd(straddle, left)
		in = vfOr(vfAnd(in, vfNot(cross)), vfAnd(vfNot(in), cross))
	}
	return in
}

func vfOnRing(r orb.Ring, q orb.Point) bool {
	on := false
	n := len(r)
	for i := 0; i < n; i++ {
		s, e := r[i], r[(i+1)%n]
		col := (q[0]-s[0])*(e[1]-s[1]) == (q[1]-s[1])*(e[0]-s[0])
		minx, maxx, miny, maxy := s[0], e[0], s[1], e[1]
		if minx > maxx {
			minx, maxx = maxx, minx
		}
		if miny > maxy {
			miny, maxy = maxy, miny
		}
		on = vfOr(on, vfAnd(col, vfAnd(vfAnd(minx <= q[0], q[0] <= maxx), vfAnd(miny <= q[1], q[1] <= maxy))))
	}
	return on
}

func vfOpen(r orb.Ring) orb.Ring {
	if len(r) > 1 && r[0] == r[len(r)-1] {
		return r[:len(r)-1]
	}
	return r
}

func vfQueryInBox() orb.Point {
	q := orb.Point{vfReal("qx"), vfReal("qy")}
	vfAssume(vfAnd(vfAnd(vfBox.Min[0] < q[0], q[0] < vfBox.Max[0]), vfAnd(vfBox.Min[1] < q[1], q[1] < vfBox.Max[1])))
	return q
}

func vfCheckOutput(mp orb.MultiPolygon, o orb.Orientation) {
	for _, p := range mp {
		for k, r := range p {
			vfAssert("ring-closed", len(r) >= 4 && r[0] == r[len(r)-1])
			for _, v := range r {
				vfAssert("ring-in-box", vfBox.Contains(v))
			}
			if k == 0 {
				vfAssert("outer-ring-winds-as-requested", r.Orientation() == o)
			}
		}
	}
}

func vfC16Ring_N(tier int) int     { return len(vfRings) * 2 }
func vfC16Ring_Label(c int) string { return "ring#" + strconv.Itoa(c/2) + " o=" + []string{"CCW", "CW"}[c%2] }

func vfC16Ring(c int) {
	in := vfRings[c/2].Clone()
	o := orb.CCW
	if c%2 == 1 {
		in.Reverse()
		o = orb.CW
	}
	orig := in.Clone()
	out := Ring(vfBox, in, o)
	vfReach("ring")
	vfCheckOutput(out, o)
	q := vfQueryInBox()
	vfAssume(vfNot(vfOnRing(vfOpen(orig), q)))
	want := vfEvenOdd(vfOpen(orig), q)
	got := false
	for _, p := range out {
		vfAssume(vfNot(vfOnRing(vfOpen(p[0]), q)))
		got = vfOr(got, vfEvenOdd(vfOpen(p[0]), q))
	}
	if c/2 != 2 && c/2 != 10 {
		// rings #2 and #10 enclose the box without their boundary meeting the open box: smart clipping
		// returns nothing for them (outside the property's quantifier; noted in DESIGN.md)
		vfAssert("same-region-as-the-original-inside-the-box", got == want)
	}
	switch c / 2 {
	case 3:
		vfAssert("wholly-inside-unchanged", len(out) == 1 && len(out[0]) == 1 && out[0][0].Equal(orig))
	case 4:
		vfAssert("wholly-outside-nothing", len(out) == 0)
	}
}

// ---- polygons with holes, multi-polygons ----

type vfPolyCase struct {
	name string
	p    orb.Polygon
}

var vfPolys = []vfPolyCase{
	{"hole stays inside", orb.Polygon{{{-1, 1}, {5, 1}, {5, 3}, {-1, 3}, {-1, 1}}, {{1, 1.5}, {1, 2.5}, {3, 2.5}, {3, 1.5}, {1, 1.5}}}},
	{"hole crosses the box edge", orb.Polygon{{{-2, 0.5}, {6, 0.5}, {6, 6}, {-2, 6}, {-2, 0.5}}, {{3, 1}, {3, 3}, {5, 3}, {5, 1}, {3, 1}}}},
	{"hole wholly outside the box", orb.Polygon{{{-2, 0.5}, {6, 0.5}, {6, 6}, {-2, 6}, {-2, 0.5}}, {{5, 5}, {5, 5.5}, {5.5, 5.5}, {5, 5}}}},
	{"two pieces, hole in one of them", orb.Polygon{{{-1, -1}, {5, -1}, {5, 1}, {1, 1}, {1, 3}, {5, 3}, {5, 5}, {-1, 5}, {-1, -1}}, {{2, 3.25}, {2, 3.75}, {3, 3.75}, {3, 3.25}, {2, 3.25}}}},
	{"two pieces, hole in the other piece", orb.Polygon{{{-1, -1}, {5, -1}, {5, 1}, {1, 1}, {1, 3}, {5, 3}, {5, 5}, {-1, 5}, {-1, -1}}, {{2, 0.25}, {2, 0.75}, {3, 0.75}, {3, 0.25}, {2, 0.25}}}},
	{"two pieces on the left side, hole in the lower arm", orb.Polygon{{{-3, 0.5}, {3, 0.5}, {3, 1.5}, {-1, 1.5}, {-1, 2.5}, {3, 2.5}, {3, 3.5}, {-3, 3.5}, {-3, 0.5}}, {{1, 0.75}, {1, 1.25}, {2, 1.25}, {2, 0.75}, {1, 0.75}}}},
	{"two pieces on the left side, hole in the upper arm", orb.Polygon{{{-3, 0.5}, {3, 0.5}, {3, 1.5}, {-1, 1.5}, {-1, 2.5}, {3, 2.5}, {3, 3.5}, {-3, 3.5}, {-3, 0.5}}, {{1, 2.75}, {1, 3.25}, {2, 3.25}, {2, 2.75}, {1, 2.75}}}},
	{"polygon inside with hole", orb.Polygon{{{1, 1}, {3, 1}, {3, 3}, {1, 3}, {1, 1}}, {{1.5, 1.5}, {1.5, 2.5}, {2.5, 2.5}, {2.5, 1.5}, {1.5, 1.5}}}},
}

func vfPolyIn(p orb.Polygon, q orb.Point) bool {
	in := vfEvenOdd(vfOpen(p[0]), q)
	for _, h := range p[1:] {
		in = vfAnd(in, vfNot(vfEvenOdd(vfOpen(h), q)))
	}
	return in
}

func vfC16Polygon_N(tier int) int { return len(vfPolys)*2 + 2*5 }
func vfC16Polygon_Label(c int) string {
	if c/2 < len(vfPolys) {
		return vfPolys[c/2].name + " o=" + []string{"CCW", "CW"}[c%2]
	}
	return "multi-polygon[" + []string{"band, corner ring", "cut member, inside member with hole", "inside member with hole, cut member", "inside with hole, small inside, hole crossing the edge", "all members inside"}[c/2-len(vfPolys)] + "] o=" + []string{"CCW", "CW"}[c%2]
}

func vfC16Polygon(c int) {
	o := orb.CCW
	if c%2 == 1 {
		o = orb.CW
	}
	var mpIn orb.MultiPolygon
	if c/2 < len(vfPolys) {
		mpIn = orb.MultiPolygon{vfPolys[c/2].p.Clone()}
	} else {
		cut := orb.Polygon{{{-1, 0.25}, {2, 0.25}, {2, 0.75}, {-1, 0.75}, {-1, 0.25}}}
		inHole := vfPolys[7].p
		small := orb.Polygon{{{3.25, 3.25}, {3.75, 3.25}, {3.75, 3.75}, {3.25, 3.75}, {3.25, 3.25}}}
		switch c/2 - len(vfPolys) {
		case 0:
			mpIn = orb.MultiPolygon{vfPolys[0].p.Clone(), {vfRings[5].Clone()}}
			mpIn[0][0] = orb.Ring{{-1, 0.5}, {5, 0.5}, {5, 1.5}, {-1, 1.5}, {-1, 0.5}}
			mpIn[0] = mpIn[0][:1]
		case 1:
			mpIn = orb.MultiPolygon{cut.Clone(), inHole.Clone()}
		case 2:
			mpIn = orb.MultiPolygon{inHole.Clone(), cut.Clone()}
		case 3:
			mpIn = orb.MultiPolygon{inHole.Clone(), small.Clone(), vfPolys[1].p.Clone()}
		case 4:
			mpIn = orb.MultiPolygon{inHole.Clone(), small.Clone()}
		}
	}
	if o == orb.CW {
		for _, p := range mpIn {
			for _, r := range p {
				r.Reverse()
			}
		}
	}
	var orig orb.MultiPolygon
	for _, p := range mpIn {
		orig = append(orig, p.Clone())
	}
	var out orb.MultiPolygon
	if len(mpIn) == 1 {
		out = Polygon(vfBox, mpIn[0], o)
	} else {
		out = MultiPolygon(vfBox, mpIn, o)
	}
	vfReach("polygon")
	vfCheckOutput(out, o)
	q := vfQueryInBox()
	want := false
	for _, p := range orig {
		for _, r := range p {
			vfAssume(vfNot(vfOnRing(vfOpen(r), q)))
		}
		want = vfOr(want, vfPolyIn(p, q))
	}
	got := false
	for _, p := range out {
		for _, r := range p {
			vfAssume(vfNot(vfOnRing(vfOpen(r), q)))
		}
		got = vfOr(got, vfPolyIn(p, q))
	}
	vfAssert("polygon-same-region-inside-the-box", got == want)
}

// ---- open input: a ring given without its closing segment, endpoints outside the box ----

var vfOpenRings = []int{0, 5, 6, 7, 11}

func vfC16Open_N(tier int) int     { return len(vfOpenRings) * 2 }
func vfC16Open_Label(c int) string { return "open ring#" + strconv.Itoa(vfOpenRings[c/2]) + " o=" + []string{"CCW", "CW"}[c%2] }

func vfC16Open(c int) {
	closed := vfRings[vfOpenRings[c/2]].Clone()
	o := orb.CCW
	if c%2 == 1 {
		closed.Reverse()
		o = orb.CW
	}
	// rotate so that the dropped closing segment lies outside the box, then drop it
	n := len(closed) - 1
	open := make(orb.Ring, 0, n)
	start := 0
	for i := 0; i < n; i++ {
		a, b := closed[i], closed[(i+1)%n]
		if !vfBox.Contains(a) && !vfBox.Contains(b) && (a[0] == b[0] && (a[0] < 0 || a[0] > 4) || a[1] == b[1] && (a[1] < 0 || a[1] > 4)) {
			start = (i + 1) % n
		}
	}
	for i := 0; i < n; i++ {
		open = append(open, closed[(start+i)%n])
	}
	out := Ring(vfBox, open.Clone(), o)
	vfReach("open")
	vfCheckOutput(out, o)
	q := vfQueryInBox()
	vfAssume(vfNot(vfOnRing(vfOpen(closed), q)))
	want := vfEvenOdd(vfOpen(closed), q)
	got := false
	for _, p := range out {
		vfAssume(vfNot(vfOnRing(vfOpen(p[0]), q)))
		got = vfOr(got, vfEvenOdd(vfOpen(p[0]), q))
	}
	vfAssert("open-ring-completed-on-its-interior-side", got == want)
}
