package wkbcommon

import (
	"bytes"
	"encoding/binary"
	"strconv"

	"github.com/paulmach/orb"
)

// shapes usable for WKB: collections must not contain typed-nil members (the property excludes nil entries)
func vfWkbShapes() []vfShapeDef {
	var out []vfShapeDef
	for _, s := range vfShapes() {
		switch s.name {
		case "Collection[Point,MultiPoint(nil)]", "MultiLineString[[nil],[1]]", "MultiPolygon[nil]":
			// nil-slice *members*: the encoder writes nothing for a nil member but counts it, so the
			// stream is not decodable. The property's quantifier excludes nil entries; noted in DESIGN.md.
			continue
		}
		out = append(out, s)
	}
	return out
}

func vfWkbShapeCount(tier int) int {
	n := 0
	for _, s := range vfWkbShapes() {
		if s.quick || tier > 0 {
			n++
		}
	}
	return n
}

// vfNormal is the geometry WKB denotes: ring and bound become the one-ring polygon, recursively.
func vfNormal(g orb.Geometry) orb.Geometry {
	switch g := g.(type) {
	case orb.Ring:
		return orb.Polygon{g}
	case orb.Bound:
		return g.ToPolygon()
	case orb.Collection:
		c := make(orb.Collection, 0, len(g))
		for _, m := range g {
			c = append(c, vfNormal(m))
		}
		return c
	}
	return g
}

func vfIsNilGeom(g orb.Geometry) bool {
	switch g := g.(type) {
	case nil:
		return true
	case orb.MultiPoint:
		return g == nil
	case orb.LineString:
		return g == nil
	case orb.MultiLineString:
		return g == nil
	case orb.Ring:
		return g == nil
	case orb.Polygon:
		return g == nil
	case orb.MultiPolygon:
		return g == nil
	case orb.Collection:
		return g == nil
	}
	return false
}

// vfBitEqual: same kind, nesting and lengths, and every coordinate bit-identical.
func vfBitEqual(id string, got, want orb.Geometry) {
	vfAssert(id+"-structure", vfSig(got) == vfSig(want))
	a, b := vfCoords(got), vfCoords(want)
	vfAssert(id+"-ncoords", len(a) == len(b))
	for i := range a {
		if i < len(b) {
			vfAssert(id+"-bits", vfSameBits(a[i], b[i]))
		}
	}
}

func vfOrder(o int) binary.ByteOrder {
	if o == 0 {
		return binary.LittleEndian
	}
	return binary.BigEndian
}

func vfSrid(mode int) int {
	if mode == 0 {
		return 0
	}
	s := vfU32("srid")
	vfAssume(vfAnd(s >= 1, s < 1<<31))
	return int(s)
}

// ---- round trip through all three decode paths ----

func vfC01RoundTrip_N(tier int) int { return vfWkbShapeCount(tier) * 4 }
func vfC01RoundTrip_Label(c int) string {
	return vfWkbShapes()[c/4].name + " order=" + []string{"LE", "BE"}[c%2] + " srid=" + []string{"absent", "symbolic"}[(c/2)%2]
}

func vfC01RoundTrip(c int) {
	g := vfWkbShapes()[c/4].mk(&vfGen{mode: 1})
	order := vfOrder(c % 2)
	srid := vfSrid((c / 2) % 2)
	data, err := Marshal(g, srid, order)
	vfReach("marshal")
	vfAssert("marshal-no-error", err == nil)
	if vfIsNilGeom(g) {
		vfAssert("nil-geometry-no-bytes", len(data) == 0)
		return
	}
	vfAssert("marshal-length", len(data) == GeomLength(vfNormal(g), srid != 0))
	want := vfNormal(g)

	g1, s1, err := Unmarshal(data)
	vfAssert("unmarshal-no-error", err == nil)
	vfAssert("unmarshal-srid", s1 == srid)
	vfBitEqual("unmarshal", g1, want)

	g2, s2, err := NewDecoder(bytes.NewReader(data)).Decode()
	vfAssert("decode-no-error", err == nil)
	vfAssert("decode-srid", s2 == srid)
	vfBitEqual("decode", g2, want)

	cp := append([]byte{}, data...)
	g3, s3, ok, err := Scan(nil, cp)
	vfAssert("scan-no-error", err == nil)
	vfAssert("scan-valid", ok)
	vfAssert("scan-srid", s3 == srid)
	vfBitEqual("scan", g3, want)
}

// ---- scanner framings: hex text and \x-prefixed hex decode to the same value ----

func vfHexChar(n byte) byte { return n + 48 + 39*((n+6)>>4) }

func vfHex(data []byte, prefix bool, upper bool) []byte {
	var out []byte
	if prefix {
		out = append(out, '\\', 'x')
	}
	for _, b := range data {
		hi, lo := vfHexChar(b>>4), vfHexChar(b&15)
		if upper {
			// A..F = a..f - 32
			hi -= 32 * ((b>>4 + 6) >> 4)
			lo -= 32 * ((b&15 + 6) >> 4)
		}
		out = append(out, hi, lo)
	}
	return out
}

var vfFramingShapes = []string{"Point", "MultiPoint[2]", "LineString[2]", "LineString{}", "Collection[LineString{},Point]", "Polygon[[3]]", "MultiLineString[[1],[2]]", "MultiPolygon[[[3]]]"}

func vfC01Framing_N(tier int) int {
	if tier == 0 {
		return 5 * 12
	}
	return len(vfFramingShapes) * 12
}
func vfC01Framing_Label(c int) string {
	return vfFramingShapes[c/12] + " order=" + []string{"LE", "BE"}[c%2] + " srid=" + []string{"absent", "symbolic"}[(c/2)%2] + " framing=" + []string{"hex", "\\x-hex", "HEX"}[(c/4)%3]
}

func vfShapeByName(n string) vfShapeDef {
	for _, s := range vfShapes() {
		if s.name == n {
			return s
		}
	}
	panic("no shape " + n)
}

func vfC01Framing(c int) {
	g := vfShapeByName(vfFramingShapes[c/12]).mk(&vfGen{mode: 1})
	order := vfOrder(c % 2)
	srid := vfSrid((c / 2) % 2)
	fr := (c / 4) % 3
	data, err := Marshal(g, srid, order)
	vfAssert("marshal-no-error", err == nil)
	text := vfHex(data, fr == 1, fr == 2)
	vfReach("framing")
	got, s, ok, err := Scan(nil, text)
	vfAssert("framed-scan-no-error", err == nil)
	vfAssert("framed-scan-valid", ok)
	vfAssert("framed-scan-srid", s == srid)
	vfBitEqual("framed-scan", got, vfNormal(g))
}

// ---- typed destinations: documented coercions, wrong-geometry error otherwise ----

var vfDestNames = []string{"*Point", "*MultiPoint", "*LineString", "*MultiLineString", "*Ring", "*Polygon", "*MultiPolygon", "*Collection"}

// the *Bound destination runs float comparisons on every vertex: small shapes in the quick tier
var vfBoundDestShapes = []string{"Point", "MultiPoint{}", "MultiPoint[1]", "MultiPoint[2]", "LineString[2]", "LineString{}", "MultiLineString[[0],[2]]", "Polygon{}", "Polygon[[0]]", "Bound", "Collection[Point]", "Collection{}", "Collection[LineString{},Point]",
	"Ring[3]", "Polygon[[3]]", "MultiLineString[[1],[2]]", "MultiPolygon[{},[[3]]]", "Collection[LineString[2],Polygon[[3]]]", "Collection[Collection[Point],Bound]", "MultiPolygon[[[3]],{}]"}

func vfC01ScanBound_N(tier int) int {
	if tier == 0 {
		return 13
	}
	return len(vfBoundDestShapes)
}
func vfC01ScanBound_Label(c int) string { return vfBoundDestShapes[c] + " into *Bound" }

func vfC01ScanBound(c int) {
	g := vfShapeByName(vfBoundDestShapes[c]).mk(&vfGen{mode: 1})
	srid := vfSrid(1)
	data, err := Marshal(g, srid)
	vfAssert("marshal-no-error", err == nil)
	want := vfNormal(g)
	var b orb.Bound
	got, s, ok, err := Scan(&b, data)
	vfReach("bound-dest")
	vfAssert("bound-dest-no-error", err == nil)
	vfAssert("bound-dest-valid", ok)
	vfAssert("bound-dest-srid", s == srid)
	wb := want.Bound()
	gb, isB := got.(orb.Bound)
	vfAssert("bound-dest-kind", isB)
	vfBitEqual("bound-dest-value", gb, wb)
	vfBitEqual("bound-dest-stored", b, wb)
}

func vfC01ScanTyped_N(tier int) int { return vfWkbShapeCount(tier) * len(vfDestNames) }
func vfC01ScanTyped_Label(c int) string {
	return vfWkbShapes()[c/len(vfDestNames)].name + " into " + vfDestNames[c%len(vfDestNames)]
}

// vfCoerce returns the value the destination must receive (nil = ErrIncorrectGeometry expected).
func vfCoerce(dest int, w orb.Geometry) (orb.Geometry, bool) {
	switch dest {
	case 0:
		switch w := w.(type) {
		case orb.Point:
			return w, true
		case orb.MultiPoint:
			if len(w) == 1 {
				return w[0], true
			}
		}
	case 1:
		switch w := w.(type) {
		case orb.Point:
			return orb.MultiPoint{w}, true
		case orb.MultiPoint:
			return w, true
		}
	case 2:
		switch w := w.(type) {
		case orb.LineString:
			return w, true
		case orb.MultiLineString:
			if len(w) == 1 {
				return w[0], true
			}
		}
	case 3:
		switch w := w.(type) {
		case orb.LineString:
			return orb.MultiLineString{w}, true
		case orb.MultiLineString:
			return w, true
		}
	case 4:
		if p, ok := w.(orb.Polygon); ok && len(p) == 1 {
			return p[0], true
		}
	case 5:
		switch w := w.(type) {
		case orb.Polygon:
			return w, true
		case orb.MultiPolygon:
			if len(w) == 1 {
				return w[0], true
			}
		}
	case 6:
		switch w := w.(type) {
		case orb.Polygon:
			return orb.MultiPolygon{w}, true
		case orb.MultiPolygon:
			return w, true
		}
	case 7:
		if cc, ok := w.(orb.Collection); ok {
			return cc, true
		}
	}
	return nil, false
}

func vfC01ScanTyped(c int) {
	nd := len(vfDestNames)
	g := vfWkbShapes()[c/nd].mk(&vfGen{mode: 1})
	dest := c % nd
	if vfIsNilGeom(g) {
		vfReach("typed-nil")
		vfAssert("skip", true)
		return
	}
	srid := vfSrid(1)
	data, err := Marshal(g, srid)
	vfAssert("marshal-no-error", err == nil)
	want := vfNormal(g)
	var p orb.Point
	var mp orb.MultiPoint
	var ls orb.LineString
	var mls orb.MultiLineString
	var r orb.Ring
	var pg orb.Polygon
	var mpg orb.MultiPolygon
	var col orb.Collection
	var d interface{}
	switch dest {
	case 0:
		d = &p
	case 1:
		d = &mp
	case 2:
		d = &ls
	case 3:
		d = &mls
	case 4:
		d = &r
	case 5:
		d = &pg
	case 6:
		d = &mpg
	case 7:
		d = &col
	}
	got, s, ok, err := Scan(d, data)
	vfReach("typed")
	exp, coercible := vfCoerce(dest, want)
	if !coercible {
		vfAssert("typed-mismatch-error", err == ErrIncorrectGeometry)
		vfAssert("typed-mismatch-invalid", !ok)
		return
	}
	vfAssert("typed-no-error", err == nil)
	vfAssert("typed-valid", ok)
	vfAssert("typed-srid", s == srid)
	vfBitEqual("typed-value", got, exp)
	var stored orb.Geometry
	switch dest {
	case 0:
		stored = p
	case 1:
		stored = mp
	case 2:
		stored = ls
	case 3:
		stored = mls
	case 4:
		stored = r
	case 5:
		stored = pg
	case 6:
		stored = mpg
	case 7:
		stored = col
	}
	vfBitEqual("typed-stored", stored, exp)
}

func vfItoa(i int) string { return strconv.Itoa(i) }
