package zz_vfc01

import (
	"bytes"
	"encoding/binary"
	"strconv"

	"github.com/paulmach/orb"
	"github.com/paulmach/orb/encoding/ewkb"
	"github.com/paulmach/orb/encoding/wkb"
)

// The public wkb / ewkb packages: Marshal / Unmarshal / Decoder / Scanner / Value, the MySQL
// SRID-prefix framing and the error mapping, over the exported API only.

var vfWShapes = []string{"Point", "MultiPoint[2]", "LineString[2]", "LineString{}", "Polygon[[3]]", "MultiLineString[[1],[2]]", "Collection[LineString{},Point]", "Ring[3]", "Bound"}

func vfShapeByName(n string) vfShapeDef {
	for _, s := range vfShapes() {
		if s.name == n {
			return s
		}
	}
	panic("no shape " + n)
}

func vfNormal(g orb.Geometry) orb.Geometry {
	switch g := g.(type) {
	case orb.Ring:
		return orb.Polygon{g}
	case orb.Bound:
		return g.ToPolygon()
	case orb.Collection:
		c := make(orb.Collection, 0, len(g))
		for _, m := range g {
			c = append(c, vfNormal(m))
		}
		return c
	}
	return g
}

func vfBitEqual(id string, got, want orb.Geometry) {
	vfAssert(id+"-structure", vfSig(got) == vfSig(want))
	a, b := vfCoords(got), vfCoords(want)
	vfAssert(id+"-ncoords", len(a) == len(b))
	for i := range a {
		if i < len(b) {
			vfAssert(id+"-bits", vfSameBits(a[i], b[i]))
		}
	}
}

func vfOrder(o int) binary.ByteOrder {
	if o == 0 {
		return binary.LittleEndian
	}
	return binary.BigEndian
}

func vfC01Wkb_N(tier int) int     { return len(vfWShapes) * 2 }
func vfC01Wkb_Label(c int) string { return vfWShapes[c/2] + " order=" + []string{"LE", "BE"}[c%2] }

func vfC01Wkb(c int) {
	g := vfShapeByName(vfWShapes[c/2]).mk(&vfGen{mode: 1})
	want := vfNormal(g)
	data, err := wkb.Marshal(g, vfOrder(c%2))
	vfReach("wkb")
	vfAssert("marshal-no-error", err == nil)
	g1, err := wkb.Unmarshal(data)
	vfAssert("unmarshal-no-error", err == nil)
	vfBitEqual("unmarshal", g1, want)
	g2, err := wkb.NewDecoder(bytes.NewReader(data)).Decode()
	vfAssert("decode-no-error", err == nil)
	vfBitEqual("decode", g2, want)
	s := wkb.Scanner(nil)
	err = s.Scan(append([]byte{}, data...))
	vfAssert("scan-no-error", err == nil)
	vfAssert("scan-valid", s.Valid)
	vfBitEqual("scan", s.Geometry, want)
	// Value() marshals the same bytes (default byte order)
	v, err := wkb.Value(g).Value()
	d0, _ := wkb.Marshal(g)
	vb, isBytes := v.([]byte)
	vfAssert("value-bytes", err == nil && isBytes && len(vb) == len(d0))
	for i := range d0 {
		if i < len(vb) {
			vfAssert("value-same-bytes", vb[i] == d0[i])
		}
	}
	// MySQL framing: 4-byte SRID prefix whose first byte is not a byte-order byte nor hex framing
	p0 := vfU8("srid0")
	vfAssume(vfAnd(vfAnd(p0 != 0, p0 != 1), vfAnd(p0 != '0', p0 != '\\')))
	pre := append([]byte{p0, vfU8("srid1"), vfU8("srid2"), vfU8("srid3")}, data...)
	s2 := wkb.Scanner(nil)
	err = s2.Scan(pre)
	vfAssert("mysql-prefix-scan-no-error", err == nil)
	vfBitEqual("mysql-prefix-scan", s2.Geometry, want)
	// typed destination mismatch is mapped to the package's own error
	if _, isPt := want.(orb.Point); !isPt {
		if mp, isMP := want.(orb.MultiPoint); !(isMP && len(mp) == 1) {
			var p orb.Point
			err = wkb.Scanner(&p).Scan(append([]byte{}, data...))
			vfAssert("typed-mismatch-mapped-error", err == wkb.ErrIncorrectGeometry)
		}
	}
}

func vfC01Ewkb_N(tier int) int     { return len(vfWShapes) * 2 }
func vfC01Ewkb_Label(c int) string { return vfWShapes[c/2] + " order=" + []string{"LE", "BE"}[c%2] }

func vfC01Ewkb(c int) {
	g := vfShapeByName(vfWShapes[c/2]).mk(&vfGen{mode: 1})
	want := vfNormal(g)
	sr := vfU32("srid")
	vfAssume(vfAnd(sr >= 1, sr < 1<<31))
	srid := int(sr)
	data, err := ewkb.Marshal(g, srid, vfOrder(c%2))
	vfReach("ewkb")
	vfAssert("marshal-no-error", err == nil)
	g1, s1, err := ewkb.Unmarshal(data)
	vfAssert("unmarshal-no-error", err == nil)
	vfAssert("unmarshal-srid", s1 == srid)
	vfBitEqual("unmarshal", g1, want)
	g2, s2, err := ewkb.NewDecoder(bytes.NewReader(data)).Decode()
	vfAssert("decode-no-error", err == nil)
	vfAssert("decode-srid", s2 == srid)
	vfBitEqual("decode", g2, want)
	sc := ewkb.Scanner(nil)
	err = sc.Scan(append([]byte{}, data...))
	vfAssert("scan-no-error", err == nil)
	vfAssert("scan-srid", sc.SRID == srid)
	vfBitEqual("scan", sc.Geometry, want)
	// SRID in a 4-byte little-endian prefix (MySQL raw format): ValuePrefixSRID / ScannerPrefixSRID
	v, err := ewkb.ValuePrefixSRID(g, srid).Value()
	vb, isBytes := v.([]byte)
	vfAssert("prefix-value-bytes", err == nil && isBytes && len(vb) >= 4)
	if len(vb) >= 4 {
		vfAssert("prefix-value-srid-le", binary.LittleEndian.Uint32(vb) == sr)
		sp := ewkb.ScannerPrefixSRID(nil)
		err = sp.Scan(vb)
		vfAssert("prefix-scan-no-error", err == nil)
		vfAssert("prefix-scan-srid", sp.SRID == srid)
		vfBitEqual("prefix-scan", sp.Geometry, want)
	}
	// Value(g, srid) is the EWKB with that SRID
	v2, err := ewkb.Value(g, srid).Value()
	d0, _ := ewkb.Marshal(g, srid)
	v2b, ok := v2.([]byte)
	vfAssert("value-bytes", err == nil && ok && len(v2b) == len(d0))
	for i := range d0 {
		if i < len(v2b) {
			vfAssert("value-same-bytes", v2b[i] == d0[i])
		}
	}
}

func vfC01Nil_N(tier int) int     { return 1 }
func vfC01Nil_Label(c int) string { return "nil geometries" }
func vfC01Nil(c int) {
	vfReach("nil")
	for _, g := range []orb.Geometry{nil, orb.MultiPoint(nil), orb.LineString(nil), orb.Polygon(nil), orb.Collection(nil), orb.Ring(nil)} {
		d, err := wkb.Marshal(g)
		vfAssert("nil-wkb-no-bytes", err == nil && len(d) == 0)
		d, err = ewkb.Marshal(g, 4326)
		vfAssert("nil-ewkb-no-bytes", err == nil && len(d) == 0)
	}
	_ = strconv.Itoa
}
