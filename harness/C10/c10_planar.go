package planar

import (
	"strconv"

	"github.com/paulmach/orb"
)

func vfP2(n string) orb.Point { return orb.Point{vfReal(n + "x"), vfReal(n + "y")} }

func vfPts(pfx string, n int) []orb.Point {
	var out []orb.Point
	for i := 0; i < n; i++ {
		out = append(out, vfP2(pfx+strconv.Itoa(i)))
	}
	return out
}

// twice the signed shoelace area of the implicitly closed vertex list
func vfShoelace2(p []orb.Point) float64 {
	s := 0.0
	n := len(p)
	for i := 0; i < n; i++ {
		j := (i + 1) % n
		s += p[i][0]*p[j][1] - p[j][0]*p[i][1]
	}
	return s
}

func vfClosedRing(p []orb.Point) orb.Ring { return orb.Ring(append(append([]orb.Point{}, p...), p[0])) }

func vfAbs(x float64) float64 { return vfIteF(x < 0, -x, x) }

// ---- ring area: shoelace, reversal, rotation, translation ----

func vfC10RingArea_N(tier int) int     { return 2 + tier }
func vfC10RingArea_Label(c int) string { return "vertices=" + strconv.Itoa(c+3) }

func vfC10RingArea(c int) {
	n := c + 3
	p := vfPts("v", n)
	r := vfClosedRing(p)
	a := Area(r)
	vfReach("ring-area")
	sh := vfShoelace2(p)
	vfAssert("area-is-shoelace", 2*a == sh)
	vfAssert("area-sign-ccw-positive", (a > 0) == (sh > 0))
	// unclosed spelling gives the same area only when closed implicitly: the code does not close, so
	// only the closed spelling is claimed here.
	rev := vfClosedRing(p)
	rev.Reverse()
	vfAssert("reversal-negates", Area(rev) == -a)
	rot := append(append([]orb.Point{}, p[1:]...), p[0])
	vfAssert("rotation-invariant", Area(vfClosedRing(rot)) == a)
	d := vfP2("d")
	var tr []orb.Point
	for _, q := range p {
		tr = append(tr, orb.Point{q[0] + d[0], q[1] + d[1]})
	}
	vfAssert("translation-invariant", Area(vfClosedRing(tr)) == a)
}

// ---- polygon: |outer| - sum |holes| ; multi-polygon and collection: sums ----

func vfC10PolygonArea_N(tier int) int     { return 2 + tier }
func vfC10PolygonArea_Label(c int) string { return "holes=" + strconv.Itoa(c) }

func vfC10PolygonArea(c int) {
	outer := vfPts("o", 3)
	poly := orb.Polygon{vfClosedRing(outer)}
	want := vfAbs(vfShoelace2(outer))
	for h := 0; h < c; h++ {
		hp := vfPts("h"+strconv.Itoa(h)+"_", 3)
		poly = append(poly, vfClosedRing(hp))
		want -= vfAbs(vfShoelace2(hp))
	}
	a := Area(poly)
	vfReach("polygon-area")
	vfAssert("polygon-area-outer-minus-holes", 2*a == want)
}

// two holes whose windings are independent: catalogue outer ring and hole bases, one symbolic vertex per hole
func vfC10TwoHoles_N(tier int) int     { return 1 }
func vfC10TwoHoles_Label(c int) string { return "two holes, one symbolic vertex each" }

func vfC10TwoHoles(c int) {
	outer := []orb.Point{{0, 0}, {10, 0}, {10, 10}, {0, 10}}
	h1 := []orb.Point{{1, 1}, {3, 1}, vfP2("h1")}
	h2 := []orb.Point{{6, 6}, {6, 9}, vfP2("h2")}
	poly := orb.Polygon{vfClosedRing(outer), vfClosedRing(h1), vfClosedRing(h2)}
	a := Area(poly)
	vfReach("two-holes")
	vfAssert("two-holes-area-outer-minus-holes", 2*a == vfAbs(vfShoelace2(outer))-vfAbs(vfShoelace2(h1))-vfAbs(vfShoelace2(h2)))
	// the other order of the holes gives the same area
	poly2 := orb.Polygon{vfClosedRing(outer), vfClosedRing(h2), vfClosedRing(h1)}
	vfAssert("two-holes-order-independent", Area(poly2) == a)
}

// multi-polygons of one member (with and without a hole), of two members, and inside a collection:
// the area is the sum over members of outer minus holes, never negative, whatever the windings;
// the centroid/area pair agrees with Area
func vfC10Multi_N(tier int) int { return 4 }
func vfC10Multi_Label(c int) string {
	return []string{"multipolygon[1 polygon, 1 ring]", "multipolygon[1 polygon with a hole]", "collection[multipolygon[1]]", "multipolygon[2 polygons]"}[c]
}

func vfC10Multi(c int) {
	t1 := vfPts("a", 3)
	p1 := orb.Polygon{vfClosedRing(t1)}
	want := vfAbs(vfShoelace2(t1))
	var g orb.Geometry
	switch c {
	case 0:
		g = orb.MultiPolygon{p1}
	case 1:
		h := []orb.Point{{1, 1}, {3, 1}, vfP2("h")}
		p1 = append(p1, vfClosedRing(h))
		want -= vfAbs(vfShoelace2(h))
		g = orb.MultiPolygon{p1}
	case 2:
		g = orb.Collection{orb.MultiPolygon{p1}}
	case 3:
		t2 := []orb.Point{{1, 2}, {5, 3}, vfP2("b")}
		want += vfAbs(vfShoelace2(t2))
		g = orb.MultiPolygon{p1, {vfClosedRing(t2)}}
	}
	a := Area(g)
	vfReach("multi")
	vfAssert("multi-area-sum-of-members", 2*a == want)
	_, a2 := CentroidArea(g)
	vfAssert("multi-centroidarea-agrees-with-area", a2 == a)
}

func vfC10Sums_N(tier int) int     { return 2 + tier }
func vfC10Sums_Label(c int) string { return []string{"collection-mixed", "collection-lines", "multipolygon"}[c] }

func vfC10Sums(c int) {
	t1, t2 := vfPts("a", 3), vfPts("b", 3)
	p1, p2 := orb.Polygon{vfClosedRing(t1)}, orb.Polygon{vfClosedRing(t2)}
	vfReach("sums")
	switch (c + 1) % 3 {
	case 0:
		mp := orb.MultiPolygon{p1, p2}
		vfAssert("multipolygon-area-sum", 2*Area(mp) == vfAbs(vfShoelace2(t1))+vfAbs(vfShoelace2(t2)))
	case 1:
		ls := orb.LineString(vfPts("l", 2))
		col := orb.Collection{p1, ls, vfP2("pt"), vfClosedRing(t2)}
		// top-dimensional members only: the polygon and the ring (signed)
		vfAssert("collection-area-top-dimension", 2*Area(col) == vfAbs(vfShoelace2(t1))+vfShoelace2(t2))
	case 2:
		col := orb.Collection{orb.LineString(vfPts("l", 2)), vfP2("pt")}
		vfAssert("collection-without-2d-has-no-area", Area(col) == 0)
	}
}

// ---- centroid of a triangle is the mean of its vertices and lies in its bound ----

func vfC10Centroid_N(tier int) int { return 6 }
func vfC10Centroid_Label(c int) string {
	return []string{"triangle", "multipoint", "linestring[one symbolic segment]", "multilinestring[empty, symbolic segment]", "multilinestring[segment, nil, vertical segment of symbolic length]", "linestring[zero-length segment, symbolic segment]"}[c]
}

func vfC10Centroid(c int) {
	vfReach("centroid")
	if c >= 2 {
		// line centroids: the length-weighted mean of the segment midpoints; empty members count for nothing
		a, b := vfP2("a"), vfP2("b")
		vfAssume(vfOr(a[0] != b[0], a[1] != b[1]))
		var g orb.Geometry
		switch c {
		case 2:
			g = orb.LineString{a, b}
		case 3:
			g = orb.MultiLineString{{}, {a, b}}
		case 5:
			g = orb.LineString{a, a, b}
		case 4:
			s := vfReal("s")
			vfAssume(vfAnd(s > 0, s < 1000))
			g = orb.MultiLineString{{{0, 0}, {3, 4}}, nil, {{10, 0}, {10, s}}}
			ce, ar := CentroidArea(g)
			vfAssert("line-centroid-area-zero", ar == 0)
			// lengths 5 and s, midpoints (1.5,2) and (10,s/2)
			vfAssert("multiline-centroid-weighted-x", (5+s)*ce[0] == 5*1.5+s*10)
			vfAssert("multiline-centroid-weighted-y", (5+s)*ce[1] == 5*2+s*s/2)
			return
		}
		ce, ar := CentroidArea(g)
		vfAssert("line-centroid-area-zero", ar == 0)
		vfAssert("segment-centroid-is-midpoint", vfAnd(2*ce[0] == a[0]+b[0], 2*ce[1] == a[1]+b[1]))
		return
	}
	if c == 1 {
		p := vfPts("v", 3)
		ce, a := CentroidArea(orb.MultiPoint(p))
		vfAssert("multipoint-centroid-mean", vfAnd(3*ce[0] == p[0][0]+p[1][0]+p[2][0], 3*ce[1] == p[0][1]+p[1][1]+p[2][1]))
		vfAssert("multipoint-area-zero", a == 0)
		return
	}
	// two vertices from a small catalogue, the third any real point
	p := []orb.Point{{1, 2}, {5, 3}, vfP2("v")}
	r := vfClosedRing(p)
	ce, a := CentroidArea(r)
	vfAssume(a != 0)
	vfAssert("triangle-centroid-mean-x", 3*ce[0] == p[0][0]+p[1][0]+p[2][0])
	vfAssert("triangle-centroid-mean-y", 3*ce[1] == p[0][1]+p[1][1]+p[2][1])
	b := r.Bound()
	vfAssert("centroid-in-bound", b.Contains(ce))
}

// ---- length: sum of segment distances, for every distance function ----

func vfC10Length_N(tier int) int { return 4 }
func vfC10Length_Label(c int) string {
	return []string{"linestring[4]", "polygon[2 rings]", "collection", "multilinestring"}[c]
}

func vfSeg(a, b orb.Point) float64 { return Distance(a, b) }

func vfC10Length(c int) {
	vfReach("length")
	sumLS := func(p []orb.Point) float64 {
		s := 0.0
		for i := 1; i < len(p); i++ {
			s += vfSeg(p[i], p[i-1])
		}
		return s
	}
	switch c {
	case 0:
		p := vfPts("v", 4)
		vfAssert("length-sum-of-segments", Length(orb.LineString(p)) == sumLS(p))
	case 1:
		o, h := vfClosedRing(vfPts("o", 3)), vfClosedRing(vfPts("h", 3))
		vfAssert("polygon-length-all-rings", Length(orb.Polygon{o, h}) == sumLS(o)+sumLS(h))
	case 2:
		l, r := vfPts("l", 3), vfClosedRing(vfPts("r", 3))
		col := orb.Collection{orb.LineString(l), vfP2("p"), r}
		vfAssert("collection-length-sum", Length(col) == sumLS(l)+sumLS(r))
	case 3:
		a, b := vfPts("a", 2), vfPts("b", 3)
		vfAssert("multilinestring-length-sum", Length(orb.MultiLineString{a, b}) == sumLS(a)+sumLS(b))
	}
}

// ---- distance from a segment: the minimum over the segment ----

var vfSegs = [][2]orb.Point{{{0, 0}, {3, 1}}, {{1, -2}, {1, 4}}, {{-2, 2}, {5, 2}}, {{1, 1}, {1, 1}}, {{0, 0}, {-2, -2}}, {{3, 0}, {0, 4}}}

func vfC10SegDist_N(tier int) int     { return len(vfSegs) }
func vfC10SegDist_Label(c int) string { return "segment#" + strconv.Itoa(c) + " concrete, query point symbolic" }

func vfSq(x float64) float64 { return x * x }

func vfC10SegDist(c int) {
	a, b, p := vfP2("a"), vfP2("b"), vfP2("p")
	a, b = vfSegs[c][0], vfSegs[c][1]
	d2 := DistanceFromSegmentSquared(a, b, p)
	vfReach("segdist")
	s := vfReal("s")
	vfAssume(vfAnd(s >= 0, s <= 1))
	x, y := a[0]+s*(b[0]-a[0]), a[1]+s*(b[1]-a[1])
	vfAssert("segdist-lower-bound", d2 <= vfSq(x-p[0])+vfSq(y-p[1]))
	vfAssert("segdist-nonnegative", d2 >= 0)
	da, db := vfSq(a[0]-p[0])+vfSq(a[1]-p[1]), vfSq(b[0]-p[0])+vfSq(b[1]-p[1])
	// attained: at an endpoint, or at the perpendicular foot (cross^2 = d2 * len^2) when it is inside
	l2 := vfSq(b[0]-a[0]) + vfSq(b[1]-a[1])
	cr := (b[0]-a[0])*(p[1]-a[1]) - (b[1]-a[1])*(p[0]-a[0])
	vfAssert("segdist-attained", vfOr(vfOr(d2 == da, d2 == db), d2*l2 == cr*cr))
	vfAssert("segdist-zero-iff-on-segment", vfImplies(d2 == 0, vfAnd(cr == 0, vfAnd(da <= l2, db <= l2))))
}

// ---- distance from a line string / closed ring / polygon: minimum over every segment, index attains it ----

func vfC10DistanceFrom_N(tier int) int { return 7 }
func vfC10DistanceFrom_Label(c int) string {
	return []string{"linestring[3]", "closed ring[3]", "polygon[2 rings]", "multipoint[3]", "polygon[3 rings: two holes]", "multipolygon[polygon with two holes, triangle]", "multilinestring[2]"}[c]
}

func vfC10DistanceFrom(c int) {
	p := vfP2("p")
	vfReach("distancefrom")
	switch c {
	case 0, 1:
		v := []orb.Point{{0, 0}, {4, 1}, {2, 5}}
		var g orb.Geometry
		pts := v
		if c == 0 {
			g = orb.LineString(v)
		} else {
			pts = vfClosedRing(v)
			g = orb.Ring(pts)
		}
		d, idx := DistanceFromWithIndex(g, p)
		vfAssert("index-in-range", idx >= 0 && idx < len(pts)-1)
		for i := 0; i+1 < len(pts); i++ {
			vfAssert("distance-is-minimum-over-every-segment", d*d <= DistanceFromSegmentSquared(pts[i], pts[i+1], p))
		}
		if idx >= 0 && idx < len(pts)-1 {
			vfAssert("index-attains-minimum", d*d == DistanceFromSegmentSquared(pts[idx], pts[idx+1], p))
		}
		vfAssert("distance-nonnegative", d >= 0)
	case 2:
		o, h := vfClosedRing([]orb.Point{{0, 0}, {8, 0}, {0, 8}}), vfClosedRing([]orb.Point{{1, 1}, {1, 3}, {3, 1}})
		d, idx := DistanceFromWithIndex(orb.Polygon{o, h}, p)
		for _, r := range []orb.Ring{o, h} {
			for i := 0; i+1 < len(r); i++ {
				vfAssert("polygon-distance-minimum-over-all-rings", d*d <= DistanceFromSegmentSquared(r[i], r[i+1], p))
			}
		}
		vfAssert("polygon-index-in-range", idx >= 0 && idx < 3)
	case 4, 5, 6:
		// several rings / members: the distance is attained on some segment and is the minimum over all of them
		o := vfClosedRing([]orb.Point{{0, 0}, {20, 0}, {20, 20}, {0, 20}})
		h1 := vfClosedRing([]orb.Point{{2, 2}, {2, 4}, {4, 4}, {4, 2}})
		h2 := vfClosedRing([]orb.Point{{10, 10}, {10, 12}, {12, 12}, {12, 10}})
		tri := vfClosedRing([]orb.Point{{30, 0}, {34, 0}, {30, 3}})
		var g orb.Geometry
		rings := []orb.Ring{o, h1, h2}
		switch c {
		case 4:
			g = orb.Polygon{o, h1, h2}
		case 5:
			g = orb.MultiPolygon{{o, h1, h2}, {tri}}
			rings = append(rings, tri)
		default:
			g = orb.MultiLineString{orb.LineString(h1), orb.LineString(tri)}
			rings = []orb.Ring{h1, tri}
		}
		// (planar.DistanceFrom measures to the boundary, also for points inside a polygon)
		d := DistanceFrom(g, p)
		attained := false
		for _, r := range rings {
			for i := 0; i+1 < len(r); i++ {
				ds := DistanceFromSegmentSquared(r[i], r[i+1], p)
				vfAssert("multi-ring-distance-is-minimum-over-every-segment", d*d <= ds)
				attained = vfOr(attained, d*d == ds)
			}
		}
		vfAssert("multi-ring-distance-attained", attained)
	case 3:
		v := []orb.Point{{0, 0}, {4, 1}, {2, 5}}
		d, idx := DistanceFromWithIndex(orb.MultiPoint(v), p)
		for i := range v {
			vfAssert("multipoint-distance-minimum", d*d <= DistanceSquared(v[i], p))
		}
		if idx >= 0 && idx < 3 {
			vfAssert("multipoint-index-attains", d*d == DistanceSquared(v[idx], p))
		}
	}
}
