package geo

import (
	"math"
	"strconv"

	"github.com/paulmach/orb"
)

// Algebraic clauses of the spherical measures, with sin / cos / atan2 as uninterpreted functions
// (only congruence and the parity axioms stated below are used). Accuracy clauses are not decidable.

func vfLL(pfx string, n int) []orb.Point {
	var out []orb.Point
	for i := 0; i < n; i++ {
		out = append(out, orb.Point{vfReal(pfx + strconv.Itoa(i) + "lon"), vfReal(pfx + strconv.Itoa(i) + "lat")})
	}
	return out
}

// the cyclic sum  -R^2/2 * sum_k (lon_{k+1} - lon_{k-1}) * sin(lat_k)  over distinct vertices
func vfCyclic(p []orb.Point) float64 {
	n := len(p)
	s := 0.0
	for k := 0; k < n; k++ {
		prev, next := p[(k+n-1)%n], p[(k+1)%n]
		s += (deg2rad(next[0]) - deg2rad(prev[0])) * math.Sin(deg2rad(p[k][1]))
	}
	return -s * orb.EarthRadius * orb.EarthRadius / 2
}

func vfC18RingArea_N(tier int) int     { return 3 + tier }
func vfC18RingArea_Label(c int) string { return "vertices=" + strconv.Itoa(c+3) }

func vfC18RingArea(c int) {
	n := c + 3
	p := vfLL("v", n)
	open := orb.Ring(append([]orb.Point{}, p...))
	closed := orb.Ring(append(append([]orb.Point{}, p...), p[0]))
	vfAssume(vfNot(vfAnd(p[0][0] == p[n-1][0], p[0][1] == p[n-1][1]))) // the unclosed spelling is really unclosed
	a := SignedArea(closed)
	vfReach("ring-area")
	vfAssert("closed-and-unclosed-spelling-agree", SignedArea(open) == a)
	vfAssert("area-is-the-cyclic-sum", a == vfCyclic(p))
	rev := closed.Clone()
	rev.Reverse()
	vfAssert("reversal-negates", SignedArea(rev) == -a)
	rot := orb.Ring(append(append([]orb.Point{}, p[1:]...), p[0], p[1]))
	vfAssert("rotation-invariant", SignedArea(rot) == a)
	vfAssert("area-is-absolute-value", Area(closed) == vfIteF(a < 0, -a, a))
}

func vfC18Composite_N(tier int) int     { return 4 }
func vfC18Composite_Label(c int) string { return []string{"polygon with holes", "multi-polygon", "collection", "bound"}[c] }

func vfAbsF(x float64) float64 { return vfIteF(x < 0, -x, x) }

func vfC18Composite(c int) {
	ring := func(pfx string) orb.Ring {
		p := vfLL(pfx, 3)
		return orb.Ring(append(p, p[0]))
	}
	vfReach("composite")
	switch c {
	case 0:
		o, h1, h2 := ring("o"), ring("h"), ring("k")
		vfAssert("polygon-outer-minus-holes", Area(orb.Polygon{o, h1, h2}) == vfAbsF(SignedArea(o))-vfAbsF(SignedArea(h1))-vfAbsF(SignedArea(h2)))
	case 1:
		a, b := ring("a"), ring("b")
		vfAssert("multipolygon-sum", Area(orb.MultiPolygon{{a}, {b}}) == vfAbsF(SignedArea(a))+vfAbsF(SignedArea(b)))
	case 2:
		a, b := ring("a"), ring("b")
		col := orb.Collection{orb.Polygon{a}, orb.Point{vfReal("px"), vfReal("py")}, b, orb.LineString(vfLL("l", 2))}
		vfAssert("collection-sum", Area(col) == vfAbsF(SignedArea(a))+vfAbsF(SignedArea(b)))
	case 3:
		b := orb.Bound{Min: orb.Point{vfReal("w"), vfReal("s")}, Max: orb.Point{vfReal("e"), vfReal("n")}}
		vfAssume(vfAnd(b.Min[0] < b.Max[0], b.Min[1] < b.Max[1]))
		got := Area(b)
		vfAssert("bound-area-is-its-ring-area", got == Area(b.ToRing()))
		// closed form R^2 * width * (sin top - sin bottom), as a real identity over the sine symbol
		w := deg2rad(b.Max[0]) - deg2rad(b.Min[0])
		cf := orb.EarthRadius * orb.EarthRadius * w * (math.Sin(deg2rad(b.Max[1])) - math.Sin(deg2rad(b.Min[1])))
		vfAssert("box-area-closed-form", got == vfAbsF(cf))
	}
}

func vfC18Symmetry_N(tier int) int     { return 2 }
func vfC18Symmetry_Label(c int) string { return []string{"Distance", "DistanceHaversine"}[c] }

func vfC18Symmetry(c int) {
	a := orb.Point{vfReal("alon"), vfReal("alat")}
	b := orb.Point{vfReal("blon"), vfReal("blat")}
	vfReach("symmetry")
	if c == 0 {
		// cos of the mid latitude is the same term up to commutativity of +
		vfAssert("distance-symmetric", Distance(a, b) == Distance(b, a))
		return
	}
	// parity axioms, instantiated at the terms that occur
	h1, h2 := deg2rad(a[1]-b[1])/2, deg2rad(a[0]-b[0])/2
	vfAssume(math.Sin(-h1) == -math.Sin(h1))
	vfAssume(math.Sin(-h2) == -math.Sin(h2))
	// range axiom: the haversine term lies in [0,1] (true for the real sine and cosine)
	hv := math.Sin(h1)*math.Sin(h1) + math.Cos(deg2rad(b[1]))*math.Cos(deg2rad(a[1]))*math.Sin(h2)*math.Sin(h2)
	vfAssume(vfAnd(hv >= 0, hv <= 1))
	vfAssert("haversine-symmetric", DistanceHaversine(a, b) == DistanceHaversine(b, a))
}

func vfC18Length_N(tier int) int     { return 3 }
func vfC18Length_Label(c int) string { return []string{"linestring[3]", "polygon[1 ring]", "haversine linestring[3]"}[c] }

func vfC18Length(c int) {
	vfReach("length")
	switch c {
	case 0:
		p := vfLL("v", 3)
		vfAssert("length-sum-of-segments", Length(orb.LineString(p)) == Distance(p[1], p[0])+Distance(p[2], p[1]))
	case 1:
		o := vfLL("o", 2)
		ro := orb.Ring(append(o, o[0]))
		sum := 0.0
		for i := 1; i < len(ro); i++ {
			sum += Distance(ro[i], ro[i-1])
		}
		vfAssert("polygon-length-all-rings", Length(orb.Polygon{ro}) == sum)
	case 2:
		p := vfLL("v", 3)
		for i := 1; i < 3; i++ {
			s1, s2 := math.Sin(deg2rad(p[i][1]-p[i-1][1])/2), math.Sin(deg2rad(p[i][0]-p[i-1][0])/2)
			hv := s1*s1 + math.Cos(deg2rad(p[i-1][1]))*math.Cos(deg2rad(p[i][1]))*s2*s2
			vfAssume(vfAnd(hv >= 0, hv <= 1))
		}
		vfAssert("haversine-length-sum", LengthHaversine(orb.LineString(p)) == DistanceHaversine(p[1], p[0])+DistanceHaversine(p[2], p[1]))
	}
}

// ---- numerical catalogue: concrete point pairs, bearings and distances through the real code ----
// The accuracy clauses are transcendental (no solver decision possible); these cases run the real
// functions on a catalogue that includes both argument orders, pairs straddling the antimeridian,
// high latitudes and both hemispheres, and check the property's identities with its tolerances.

var vfGeoPts = []orb.Point{
	{0, 0}, {10, 20}, {-170, 10}, {170, 20}, {179.97, 30}, {-179.97, 30}, {-122.4, 37.8}, {151.2, -33.9},
	{0.01, 60}, {0.05, 60.02}, {179.999, -45}, {-179.999, -45.01}, {30, 88}, {-150, 88.5}, {45, -89}, {12.5, 41.9},
}

func vfC18Catalogue_N(tier int) int { return len(vfGeoPts) * len(vfGeoPts) }
func vfC18Catalogue_Label(c int) string {
	return "pair#" + strconv.Itoa(c/len(vfGeoPts)) + "," + strconv.Itoa(c%len(vfGeoPts))
}

func vfNearRel(a, b, rel float64) bool {
	d := a - b
	if d < 0 {
		d = -d
	}
	m := a
	if m < 0 {
		m = -m
	}
	return d <= rel*(1+m)
}

func vfC18Catalogue(c int) {
	a, b := vfGeoPts[c/len(vfGeoPts)], vfGeoPts[c%len(vfGeoPts)]
	vfReach("catalogue")
	h := DistanceHaversine(a, b)
	vfAssert("haversine-symmetric", h == DistanceHaversine(b, a) || vfNearRel(h, DistanceHaversine(b, a), 1e-12))
	vfAssert("haversine-at-most-half-circumference", h <= 3.141592653589794*orb.EarthRadius)
	d := Distance(a, b)
	vfAssert("distance-symmetric", vfNearRel(d, Distance(b, a), 1e-12))
	if h < 10000 && a[1] < 80 && a[1] > -80 && b[1] < 80 && b[1] > -80 {
		vfAssert("fast-distance-agrees-with-haversine-under-10km", vfNearRel(d, h, 1e-5))
	}
	if c/len(vfGeoPts) != c%len(vfGeoPts) {
		m := Midpoint(a, b)
		vfAssert("midpoint-equidistant", vfNearRel(DistanceHaversine(a, m), DistanceHaversine(m, b), 1e-6))
		vfAssert("midpoint-halves-the-distance", vfNearRel(2*DistanceHaversine(a, m), h, 1e-6))
	}
	// travelling a distance on a bearing lands at that haversine distance from the start
	brg := float64((c*37)%360 - 180)
	dist := float64((c*7919)%5000) * 1000
	p := PointAtBearingAndDistance(a, brg, dist)
	vfAssert("destination-at-the-given-distance", vfNearRel(DistanceHaversine(a, p), dist, 1e-6))
}
