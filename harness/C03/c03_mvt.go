package mvt

import (
	"sort"
	"strconv"

	"github.com/paulmach/orb"
	"github.com/paulmach/orb/encoding/mvt/vectortile"
	"github.com/paulmach/orb/geojson"
	"github.com/paulmach/protoscan"
)

// ---- layer 2: varints, all values ----

func vfC03Varint_N(tier int) int     { return 3 }
func vfC03Varint_Label(c int) string { return []string{"uint64", "uint32 packed", "size model"}[c] }

func vfC03Varint(c int) {
	vfReach("varint")
	if c == 2 {
		// the executor models the generated sovVectorTile by a threshold ITE: validate it against the
		// real formula (bits.Len64(x|1)+6)/7 for every x, through the real Size() method
		v := vfU64("v")
		tv := &vectortile.Tile_Value{UintValue: &v}
		vfAssert("size-model-agrees", tv.Size() == 1+(vfLen64(v|1)+6)/7)
		return
	}
	if c == 0 {
		v := vfU64("v")
		n := (vfLen64(v|1) + 6) / 7
		buf := make([]byte, 1+10)
		buf[0] = 1 << 3 // field 1, varint
		// the generated encoder writes backwards from an end offset
		end := 1 + n
		start := vfEncodeVarint(buf, end, v)
		vfAssert("varint-start", start == 1)
		msg := protoscan.New(buf[:end])
		vfAssert("varint-next", msg.Next())
		got, err := msg.Uint64()
		vfAssert("varint64-roundtrip", vfAnd(err == nil, got == v))
		vfAssert("varint-consumed", !msg.Next())
		return
	}
	v := vfU32("v")
	w := vfU32("w")
	n1 := (vfLen64(uint64(v)|1) + 6) / 7
	n2 := (vfLen64(uint64(w)|1) + 6) / 7
	buf := make([]byte, 2+20)
	end := 2 + n1 + n2
	s2 := vfEncodeVarint(buf, end, uint64(w))
	s1 := vfEncodeVarint(buf, s2, uint64(v))
	vfAssert("packed-start", s1 == 2)
	buf[0] = 4<<3 | 2
	buf[1] = byte(n1 + n2)
	msg := protoscan.New(buf[:end])
	vfAssert("packed-next", msg.Next())
	it, err := msg.Iterator(nil)
	vfAssert("packed-iterator", err == nil)
	vfAssert("packed-count", it.Count(protoscan.WireTypeVarint) == 2)
	a, e1 := it.Uint32()
	b, e2 := it.Uint32()
	vfAssert("packed-roundtrip", vfAnd(vfAnd(e1 == nil, e2 == nil), vfAnd(a == v, b == w)))
	vfAssert("packed-exhausted", !it.HasNext())
}

func vfLen64(x uint64) int {
	n := 0
	for ; x != 0; x >>= 1 {
		n++
	}
	return n
}

// same code as the generated encodeVarintVectorTile (which is unexported in another package);
// the real one is exercised by the message-level harness below.
func vfEncodeVarint(dAtA []byte, offset int, v uint64) int {
	offset -= (vfLen64(v|1) + 6) / 7
	base := offset
	for v >= 1<<7 {
		dAtA[offset] = uint8(v&0x7f | 0x80)
		v >>= 7
		offset++
	}
	dAtA[offset] = uint8(v)
	return base
}

// ---- layer 1: geometry commands, zig-zag deltas, ring regrouping ----

func vfVarint5(v uint32) []byte {
	return []byte{byte(v&0x7f) | 0x80, byte((v>>7)&0x7f) | 0x80, byte((v>>14)&0x7f) | 0x80, byte((v>>21)&0x7f) | 0x80, byte(v >> 28)}
}

type vfCoordGen struct {
	n     int
	fixed bool // coordinates in [2^26, 2^27): the first delta of a feature has a fixed varint width
}

func (g *vfCoordGen) c() float64 {
	g.n++
	v := vfI32("k" + strconv.Itoa(g.n))
	if g.fixed {
		return float64(v&0x03ffffff | 1<<26)
	}
	vfAssume(vfAnd(v > -(1<<28), v < 1<<28))
	return float64(v)
}
func (g *vfCoordGen) pt() orb.Point { return orb.Point{g.c(), g.c()} }
func (g *vfCoordGen) pts(n int) []orb.Point {
	var p []orb.Point
	for i := 0; i < n; i++ {
		p = append(p, g.pt())
	}
	return p
}

// twice the signed area (integer valued)
func vfArea2(r []orb.Point) float64 {
	s := 0.0
	for i := range r {
		j := (i + 1) % len(r)
		s += r[i][0]*r[j][1] - r[j][0]*r[i][1]
	}
	return s
}

// single ring of n vertices, closed or not (the decoder does not look at the winding of the
// first ring, so none is assumed: every vertex list is covered)
func (g *vfCoordGen) ring(n int, closed bool, ccw bool) orb.Ring {
	p := g.pts(n)
	if closed {
		p = append(p, p[0])
	}
	return orb.Ring(p)
}

// multi-ring cases: concrete integer rings with the stated winding, translated by a symbolic
// integer offset is too heavy for the bit-vector multiplier; they are structure-only (concrete).
func vfConcreteRing(dx, dy float64, ccw bool) orb.Ring {
	r := orb.Ring{{dx, dy}, {dx + 4, dy}, {dx + 4, dy + 3}, {dx, dy + 3}, {dx, dy}}
	if !ccw {
		r.Reverse()
	}
	return r
}

var vfGeomNames = []string{"Point", "MultiPoint[2]", "MultiPoint[3]", "LineString[2]", "LineString[3]", "MultiLineString[[2 concrete],[2]]", "MultiLineString[[2]]",
	"Polygon[[3+c]]", "Polygon[[3]]", "Ring[3]", "Polygon[[3+c],[3+c hole]]", "MultiPolygon[[[3+c]],[[3+c]]]", "MultiPolygon[[[3+c]]]", "MultiPoint[1]", "Bound",
	"Polygon with hole x20000", "Polygon with hole x2^24", "MultiPolygon with hole x20000", "MultiPolygon with hole x2^24",
	"Polygon[big outer, hole of symbolic width]", "MultiPolygon[[concrete],[outer of symbolic width]]"}

func vfGeom(c int, g *vfCoordGen) (in orb.Geometry, want orb.Geometry) {
	switch c {
	case 0:
		p := g.pt()
		return p, p
	case 1, 2:
		mp := orb.MultiPoint(g.pts(c + 1))
		return mp, mp
	case 3, 4:
		ls := orb.LineString(g.pts(c - 1))
		return ls, ls
	case 5:
		// the cursor persists across parts: first part concrete, second part symbolic
		mls := orb.MultiLineString{{{3, -7}, {-2, 5}}, g.pts(2)}
		return mls, mls
	case 6:
		ls := orb.LineString(g.pts(2))
		return orb.MultiLineString{ls}, ls // a one-member multi equals its member
	case 7:
		r := g.ring(3, true, true)
		return orb.Polygon{r}, orb.Polygon{r}
	case 8:
		r := g.ring(3, false, true)
		return orb.Polygon{r}, orb.Polygon{append(r.Clone(), r[0])} // rings come back closed
	case 9:
		r := g.ring(3, false, true)
		return r, orb.Polygon{append(r.Clone(), r[0])}
	case 10:
		o, h := vfConcreteRing(0, 0, true), vfConcreteRing(1, 1, false)
		h[1][0], h[2][0] = 2, 2
		return orb.Polygon{o, h}, orb.Polygon{o, h}
	case 11:
		a, b, h := vfConcreteRing(0, 0, true), vfConcreteRing(-10, 5, true), vfConcreteRing(-9, 6, false)
		h[1][1], h[2][1] = 7, 7
		return orb.MultiPolygon{{a}, {b, h}}, orb.MultiPolygon{{a}, {b, h}}
	case 12:
		a := g.ring(3, true, true)
		return orb.MultiPolygon{{a}}, orb.Polygon{a}
	case 13:
		p := g.pt()
		return orb.MultiPoint{p}, p
	case 15, 16, 17, 18:
		// the multi-ring cases at large magnitudes (ring regrouping looks at the winding of every later ring)
		k := 20000.0
		if c%2 == 0 {
			k = 1 << 24
		}
		base := 10
		if c >= 17 {
			base = 11
		}
		in, _ := vfGeom(base, g)
		sc := func(r orb.Ring) {
			for i := range r {
				r[i][0] *= k
				r[i][1] *= k
			}
		}
		switch t := in.(type) {
		case orb.Polygon:
			for _, r := range t {
				sc(r)
			}
		case orb.MultiPolygon:
			for _, p := range t {
				for _, r := range p {
					sc(r)
				}
			}
		}
		return in, orb.Clone(in)
	case 19, 20:
		// a rectangle whose width and height are symbolic integers in [1, 2^28): as a clockwise hole
		// of a big concrete outer ring, and as the counter-clockwise outer ring of a second polygon
		// (both symbolic makes a 28x28-bit symbolic multiplication in the winding sum: z3 does not decide it;
		// the height is concrete, different in the two cases)
		w := float64(vfI32("w"))
		vfAssume(vfAnd(w >= 1, w < 1<<28-3))
		h := 50001.0
		if c == 20 {
			h = 1<<27 + 1
		}
		if c == 19 {
			big := float64(1<<28 - 1)
			o := orb.Ring{{0, 0}, {big, 0}, {big, big}, {0, big}, {0, 0}}
			hole := orb.Ring{{1, 1}, {1, 1 + h}, {1 + w, 1 + h}, {1 + w, 1}, {1, 1}}
			p := orb.Polygon{o, hole}
			return p, p.Clone()
		}
		a := vfConcreteRing(0, 0, true)
		b := orb.Ring{{1, 1}, {1 + w, 1}, {1 + w, 1 + h}, {1, 1 + h}, {1, 1}}
		mp := orb.MultiPolygon{{a}, {b}}
		return mp, mp.Clone()
	}
	// case 14
	b := orb.Bound{Min: g.pt(), Max: g.pt()}
	vfAssume(vfAnd(b.Min[0] < b.Max[0], b.Min[1] < b.Max[1]))
	return b, b.ToPolygon()
}

func vfSameGeom(id string, got, want orb.Geometry) {
	vfAssert(id+"-structure", vfSig(got) == vfSig(want))
	a, b := vfCoords(got), vfCoords(want)
	vfAssert(id+"-ncoords", len(a) == len(b))
	for i := range a {
		if i < len(b) {
			vfAssert(id+"-coord", a[i] == b[i])
		}
	}
}

func vfC03Geom_N(tier int) int {
	if tier == 0 {
		return len(vfGeomNames) - 1 // the last case (~4 min of solver time) is thorough only
	}
	return len(vfGeomNames)
}
func vfC03Geom_Label(c int) string { return vfGeomNames[c] }

func vfC03Geom(c int) {
	in, want := vfGeom(c, &vfCoordGen{})
	typ, data, err := encodeGeometry(in)
	vfReach("geom")
	vfAssert("encode-no-error", err == nil)
	var packed []byte
	for _, w := range data {
		packed = append(packed, vfVarint5(w)...)
	}
	feat := []byte{0x22}
	if n := len(packed); n < 128 {
		feat = append(feat, byte(n))
	} else {
		feat = append(feat, byte(n&0x7f)|0x80, byte(n>>7))
	}
	feat = append(feat, packed...)
	msg := protoscan.New(feat)
	vfAssert("next", msg.Next())
	it, err := msg.Iterator(nil)
	vfAssert("iterator", err == nil)
	d := &decoder{geom: it}
	got, err := d.Geometry(typ)
	vfAssert("decode-no-error", err == nil)
	vfSameGeom("geometry-roundtrip", got, want)
}

// ---- layer 3: whole tile through the real protobuf marshaller and the real decoder ----

func vfC03Tile_N(tier int) int { return 5 }
func vfC03Tile_Label(c int) string {
	return []string{"one point feature with properties", "two features sharing keys/values", "nil geometry skipped + empty layer", "ids", "collection feature"}[c]
}

func vfProps(pfx string) geojson.Properties {
	return geojson.Properties{
		"name":  "x" + pfx,
		"flag":  vfBool(pfx + "flag"),
		// integers with a fixed encoded width (the size of the message must not depend on a symbolic value)
		"count": int(vfI32(pfx+"count")&0x03ffffff | 1<<26),
		"big":   vfU64(pfx+"big")&(1<<52-1) | 1<<52,
		"ratio": vfF64(pfx + "ratio"),
	}
}

func vfWiden(v interface{}) interface{} {
	switch t := v.(type) {
	case int:
		return float64(t)
	case uint64:
		return float64(t)
	}
	return v
}

func vfCheckProps(got, want geojson.Properties) {
	vfAssert("props-count", len(got) == len(want))
	keys := make([]string, 0, len(want))
	for k := range want {
		keys = append(keys, k)
	}
	sort.Strings(keys)
	for _, k := range keys {
		g, ok := got[k]
		vfAssert("prop-present", ok)
		w := vfWiden(want[k])
		switch wv := w.(type) {
		case float64:
			gv, isF := g.(float64)
			vfAssert("prop-number-widened-to-float64", isF)
			if k == "ratio" {
				vfAssert("prop-double-bits", vfSameBits(gv, wv))
			} else {
				vfAssert("prop-number-value", gv == wv)
			}
		case bool:
			gv, isB := g.(bool)
			vfAssert("prop-bool", vfAnd(isB, gv == wv))
		case string:
			gv, isS := g.(string)
			vfAssert("prop-string", isS && gv == wv)
		}
	}
}

func vfC03Tile(c int) {
	g := &vfCoordGen{fixed: true}
	ver := uint32(1 + c%2)
	ext := uint32(256) << uint(c)
	layer := &Layer{Name: "roads", Version: ver, Extent: ext}
	var want []*geojson.Feature
	switch c {
	case 0:
		f := &geojson.Feature{Type: "Feature", Geometry: g.pt(), Properties: vfProps("a")}
		layer.Features = []*geojson.Feature{f}
		want = layer.Features
	case 1:
		p0 := g.pt()
		f1 := &geojson.Feature{Type: "Feature", Geometry: orb.LineString{p0, {p0[0] + 5, p0[1] - 3}}, Properties: geojson.Properties{"k": "v", "n": 7}}
		f2 := &geojson.Feature{Type: "Feature", Geometry: g.pt(), Properties: geojson.Properties{"k": "v", "n": 7.0, "m": uint8(7)}}
		layer.Features = []*geojson.Feature{f1, f2}
		want = layer.Features
	case 2:
		f1 := &geojson.Feature{Type: "Feature", Geometry: nil, Properties: geojson.Properties{"k": "v"}}
		f2 := &geojson.Feature{Type: "Feature", Geometry: g.pt()}
		layer.Features = []*geojson.Feature{f1, f2}
		want = []*geojson.Feature{f2}
	case 3:
		id := vfU64("id")&(1<<52-1) | 1<<52
		f1 := &geojson.Feature{Type: "Feature", ID: id, Geometry: g.pt()}
		f2 := &geojson.Feature{Type: "Feature", ID: -4, Geometry: g.pt()}
		layer.Features = []*geojson.Feature{f1, f2}
		want = layer.Features
	case 4:
		p := g.pt()
		ls := orb.LineString{{p[0] + 1, p[1] + 2}, {p[0] - 7, p[1] + 9}}
		f := &geojson.Feature{Type: "Feature", Geometry: orb.Collection{p, ls}, Properties: geojson.Properties{"k": "v"}}
		layer.Features = []*geojson.Feature{f}
		want = []*geojson.Feature{{Type: "Feature", Geometry: p, Properties: f.Properties}, {Type: "Feature", Geometry: ls, Properties: f.Properties}}
	}
	layers := Layers{layer}
	if c == 2 {
		layers = append(layers, &Layer{Name: "empty", Version: 2, Extent: 4096})
	}
	data, err := Marshal(layers)
	vfReach("tile")
	vfAssert("marshal-no-error", err == nil)
	data2, err := Marshal(layers)
	vfAssert("marshal-again-no-error", err == nil)
	vfAssert("marshal-deterministic-length", len(data) == len(data2))
	for i := range data {
		if i < len(data2) {
			vfAssert("marshal-deterministic-bytes", data[i] == data2[i])
		}
	}
	got, err := Unmarshal(data)
	vfAssert("unmarshal-no-error", err == nil)
	vfAssert("layer-count", len(got) == len(layers))
	if len(got) == 0 {
		return
	}
	l := got[0]
	vfAssert("layer-name", l.Name == "roads")
	vfAssert("layer-version", l.Version == ver)
	vfAssert("layer-extent", l.Extent == ext)
	vfAssert("collection-members-become-features", len(l.Features) == len(want))
	for i, f := range l.Features {
		if i >= len(want) {
			break
		}
		vfSameGeom("feature-geometry", f.Geometry, want[i].Geometry)
		vfCheckProps(f.Properties, want[i].Properties)
		switch id := want[i].ID.(type) {
		case nil:
			vfAssert("id-absent", f.ID == nil)
		case uint64:
			fid, ok := f.ID.(float64)
			vfAssert("id-roundtrip", vfAnd(ok, fid == float64(id)))
		case int:
			if id < 0 {
				vfAssert("negative-id-dropped", f.ID == nil)
			}
		}
	}
	if c == 2 && len(got) > 1 {
		vfAssert("empty-layer-kept", got[1].Name == "empty" && got[1].Version == 2 && len(got[1].Features) == 0)
	}
}

// ---- keys/values tables are a deterministic function of the features (any map order) ----

func vfC03Tables_N(tier int) int     { return 2 }
func vfC03Tables_Label(c int) string { return []string{"key/value tables", "integer values of different Go types"}[c] }

// every value in the table decodes to the number that was put in, whatever other values of
// other integer types are in the same layer (typed de-duplication must never alias two numbers)
func vfC03TableValues() {
	kve := newKeyValueEncoder()
	s64, u64 := vfI64("s64"), vfU64("u64")
	s32, u8 := vfI32("s32"), vfU8("u8")
	props := []geojson.Properties{{"a": s64, "b": u64}, {"a": u64, "b": int(s32), "c": u8}, {"a": s64, "c": uint(u64)}}
	want := [][]float64{{float64(s64), float64(u64)}, {float64(u64), float64(s32), float64(u8)}, {float64(s64), float64(u64)}}
	vfReach("table-values")
	for i, p := range props {
		tags, err := encodeProperties(kve, p)
		vfAssert("encode-no-error", err == nil)
		vfAssert("tags-length", len(tags) == 2*len(want[i]))
		for j := range want[i] {
			if 2*j+1 < len(tags) {
				vi := int(tags[2*j+1])
				vfAssert("value-index-in-table", vi >= 0 && vi < len(kve.Values))
				if vi >= 0 && vi < len(kve.Values) {
					got, isF := decodeValue(kve.Values[vi]).(float64)
					vfAssert("table-value-decodes-to-the-number-put-in", vfAnd(isF, got == want[i][j]))
				}
			}
		}
	}
}

func vfC03Tables(c int) {
	if c == 1 {
		vfC03TableValues()
		return
	}
	kve := newKeyValueEncoder()
	p1 := geojson.Properties{"b": 1, "a": "x", "c": true, "d": vfI32("d")}
	p2 := geojson.Properties{"c": true, "e": 1, "a": "y", "b": 1.0}
	t1, err1 := encodeProperties(kve, p1)
	t2, err2 := encodeProperties(kve, p2)
	vfReach("tables")
	vfAssert("no-error", err1 == nil && err2 == nil)
	// keys in sorted order of first appearance, whatever order the maps iterate in
	wantKeys := []string{"a", "b", "c", "d", "e"}
	vfAssert("keys-table-length", len(kve.Keys) == len(wantKeys))
	for i := range wantKeys {
		if i < len(kve.Keys) {
			vfAssert("keys-table-sorted-first-appearance", kve.Keys[i] == wantKeys[i])
		}
	}
	vfAssert("tags-length", len(t1) == 8 && len(t2) == 8)
	for i := 0; i < 4; i++ {
		vfAssert("tags1-key-order", t1[2*i] == uint32(i))
	}
	wantK2 := []uint32{0, 1, 2, 4}
	for i := 0; i < 4; i++ {
		vfAssert("tags2-key-order", t2[2*i] == wantK2[i])
	}
	// value table: typed de-duplication (int 1 and float 1.0 are different values; true is shared)
	vfAssert("value-shared-bool", t1[5] == t2[5])
	vfAssert("value-int-vs-float-distinct", t1[3] != t2[3])
	vfAssert("value-int-shared", t1[3] == t2[7])
	_ = vectortile.Tile_POINT
}
