package zz_vfc20

import (
	"math"

	"github.com/paulmach/orb"
	"github.com/paulmach/orb/clip"
	"github.com/paulmach/orb/geo"
	"github.com/paulmach/orb/maptile"
	"github.com/paulmach/orb/maptile/tilecover"
	"github.com/paulmach/orb/planar"
	"github.com/paulmach/orb/project"
	"github.com/paulmach/orb/simplify"
)

// generic(g) must equal the kind-specific function applied to g; a collection is the
// combination of its members.

func vfSame(id string, a, b orb.Geometry) {
	vfAssert(id+"-structure", vfSig(a) == vfSig(b))
	x, y := vfCoords(a), vfCoords(b)
	vfAssert(id+"-ncoords", len(x) == len(y))
	for i := range x {
		if i < len(y) {
			vfAssert(id+"-coord", x[i] == y[i])
		}
	}
}

func vfSwap(p orb.Point) orb.Point { return orb.Point{p[1] + 1, p[0] * 2} }

func vfC20Agree_N(tier int) int     { return vfShapeCount(1) }
func vfC20Agree_Label(c int) string { return vfShapes()[c].name }

func vfC20Agree(c int) {
	mk := vfShapes()[c].mk
	vfReach("agree")

	// ---- orb.Clone / orb.Equal against the typed methods (symbolic coordinates)
	g := mk(&vfGen{})
	h := mk(&vfGen{pfx: "h"})
	var typedClone orb.Geometry
	var typedEq bool
	switch t := g.(type) {
	case orb.Point:
		typedClone, typedEq = t, t.Equal(h.(orb.Point))
	case orb.MultiPoint:
		typedClone, typedEq = t.Clone(), t.Equal(h.(orb.MultiPoint))
	case orb.LineString:
		typedClone, typedEq = t.Clone(), t.Equal(h.(orb.LineString))
	case orb.MultiLineString:
		typedClone, typedEq = t.Clone(), t.Equal(h.(orb.MultiLineString))
	case orb.Ring:
		typedClone, typedEq = t.Clone(), t.Equal(h.(orb.Ring))
	case orb.Polygon:
		typedClone, typedEq = t.Clone(), t.Equal(h.(orb.Polygon))
	case orb.MultiPolygon:
		typedClone, typedEq = t.Clone(), t.Equal(h.(orb.MultiPolygon))
	case orb.Collection:
		typedClone, typedEq = t.Clone(), t.Equal(h.(orb.Collection))
	case orb.Bound:
		typedClone, typedEq = t, t.Equal(h.(orb.Bound))
	}
	vfSame("clone-agrees", orb.Clone(g), typedClone)
	vfAssert("equal-agrees", orb.Equal(g, h) == typedEq)

	// ---- project: generic vs typed, vertex by vertex (symbolic coordinates)
	want := vfCoords(g)
	pg := project.Geometry(orb.Clone(g), vfSwap)
	var pt orb.Geometry
	switch t := orb.Clone(g).(type) {
	case orb.Point:
		pt = project.Point(t, vfSwap)
	case orb.MultiPoint:
		pt = project.MultiPoint(t, vfSwap)
	case orb.LineString:
		pt = project.LineString(t, vfSwap)
	case orb.MultiLineString:
		pt = project.MultiLineString(t, vfSwap)
	case orb.Ring:
		pt = project.Ring(t, vfSwap)
	case orb.Polygon:
		pt = project.Polygon(t, vfSwap)
	case orb.MultiPolygon:
		pt = project.MultiPolygon(t, vfSwap)
	case orb.Collection:
		pt = project.Collection(t, vfSwap)
	case orb.Bound:
		pt = project.Bound(t, vfSwap)
	}
	vfSame("project-agrees", pg, pt)
	if _, isB := g.(orb.Bound); !isB {
		if _, isC := g.(orb.Collection); !isC {
			got := vfCoords(pg)
			vfAssert("project-ncoords", len(got) == len(want))
			for i := 0; i+1 < len(want) && i+1 < len(got); i += 2 {
				vfAssert("project-each-vertex-once", vfAnd(got[i] == want[i+1]+1, got[i+1] == want[i]*2))
			}
		}
	}

	// ---- structure-only part (small concrete coordinates): clip, simplify, tilecover, planar sums
	cg := func() orb.Geometry { return mk(&vfGen{mode: 2}) }
	var ct orb.Geometry
	switch t := cg().(type) {
	case orb.Point:
		if vfBox.Contains(t) {
			ct = t
		}
	case orb.MultiPoint:
		ct = vfUnwrapMP(clip.MultiPoint(vfBox, t))
	case orb.LineString:
		ct = vfUnwrapMLS(clip.LineString(vfBox, t))
	case orb.MultiLineString:
		ct = vfUnwrapMLS(clip.MultiLineString(vfBox, t))
	case orb.Ring:
		if r := clip.Ring(vfBox, t); len(r) > 0 {
			ct = r
		}
	case orb.Polygon:
		if p := clip.Polygon(vfBox, t); len(p) > 0 {
			ct = p
		}
	case orb.MultiPolygon:
		mp := clip.MultiPolygon(vfBox, t)
		if len(mp) == 1 {
			ct = mp[0]
		} else if len(mp) > 0 {
			ct = mp
		}
	case orb.Collection:
		var res orb.Collection
		for _, m := range t {
			if cm := clip.Geometry(vfBox, m); cm != nil {
				res = append(res, cm)
			}
		}
		if len(res) == 1 {
			ct = res[0]
		} else if len(res) > 0 {
			ct = res
		}
	case orb.Bound:
		if b := clip.Bound(vfBox, t); !b.IsEmpty() {
			ct = b
		}
	}
	gg := clip.Geometry(vfBox, cg())
	if gg == nil || ct == nil {
		vfAssert("clip-nil-agrees", (gg == nil) == (ct == nil))
	} else {
		vfSame("clip-agrees", gg, ct)
	}

	for si, s := range []orb.Simplifier{simplify.DouglasPeucker(0.5), simplify.VisvalingamThreshold(40), simplify.VisvalingamKeep(3), simplify.Radial(planar.Distance, 2.5)} {
		var st orb.Geometry
		switch t := cg().(type) {
		case orb.Point:
			st = t
		case orb.MultiPoint:
			st = t
		case orb.LineString:
			st = s.LineString(t)
		case orb.MultiLineString:
			st = s.MultiLineString(t)
		case orb.Ring:
			st = s.Ring(t)
		case orb.Polygon:
			st = s.Polygon(t)
		case orb.MultiPolygon:
			st = s.MultiPolygon(t)
		case orb.Collection:
			st = s.Collection(t)
		case orb.Bound:
			st = t
		}
		// the generic entry point returns nil for an empty result (and for a nil multi-point)
		switch t := st.(type) {
		case orb.MultiPoint:
			if t == nil {
				st = nil
			}
		case orb.LineString:
			if len(t) == 0 {
				st = nil
			}
		case orb.MultiLineString:
			if len(t) == 0 {
				st = nil
			}
		case orb.Ring:
			if len(t) == 0 {
				st = nil
			}
		case orb.Polygon:
			if len(t) == 0 {
				st = nil
			}
		case orb.MultiPolygon:
			if len(t) == 0 {
				st = nil
			}
		case orb.Collection:
			if len(t) == 0 {
				st = nil
			}
		}
	vfSame("simplify-agrees-"+[]string{"dp", "vis-threshold", "vis-keep", "radial"}[si], s.Simplify(cg()), st)
	}

	// planar: a collection is the sum of its members of the highest dimension
	if col, ok := cg().(orb.Collection); ok {
		maxd := -1
		for _, m := range col {
			if d := m.Dimensions(); d > maxd {
				maxd = d
			}
		}
		area, length := 0.0, 0.0
		for _, m := range col {
			if m.Dimensions() == 2 {
				area += planar.Area(m)
			}
			length += planar.Length(m)
		}
		if maxd == 2 {
			vfAssert("collection-area-sum", planar.Area(col) == area)
		} else {
			vfAssert("collection-area-zero", planar.Area(col) == 0)
		}
		vfAssert("collection-length-sum", planar.Length(col) == length)
	}

	// orb.Round: every coordinate of every kind (collection members included) is rounded to the factor
	{
		rg := mk(&vfGen{mode: 4})
		want := vfCoords(rg)
		got := vfCoords(orb.Round(orb.Clone(rg), 100))
		vfAssert("round-ncoords", len(got) == len(want))
		for i := range want {
			if i < len(got) {
				vfAssert("round-every-coordinate", got[i] == math.Round(want[i]*100)/100)
			}
		}
	}

	// planar / geo length and planar area of every kind against the kind's own definition
	// (path length of the vertices as given; a bound is its ring; outer ring minus holes)
	vfMeasures(cg())

	// tile cover: generic vs typed
	z := maptile.Zoom(2)
	tg, err := tilecover.Geometry(cg(), z)
	var tt maptile.Set
	var err2 error
	switch t := cg().(type) {
	case orb.Point:
		tt = tilecover.Point(t, z)
	case orb.MultiPoint:
		tt = tilecover.MultiPoint(t, z)
	case orb.LineString:
		tt = tilecover.LineString(t, z)
	case orb.MultiLineString:
		tt = tilecover.MultiLineString(t, z)
	case orb.Ring:
		tt, err2 = tilecover.Ring(t, z)
	case orb.Polygon:
		tt, err2 = tilecover.Polygon(t, z)
	case orb.MultiPolygon:
		tt, err2 = tilecover.MultiPolygon(t, z)
	case orb.Collection:
		tt, err2 = tilecover.Collection(t, z)
	case orb.Bound:
		tt = tilecover.Bound(t, z)
	}
	vfAssert("tilecover-error-agrees", (err == nil) == (err2 == nil))
	if err == nil {
		vfAssert("tilecover-size-agrees", len(tg) == len(tt))
		for k := range tg {
			vfAssert("tilecover-member-agrees", tt[k])
		}
	}
}

func vfPathLen(ps []orb.Point, df func(a, b orb.Point) float64) float64 {
	sum := 0.0
	for i := 1; i < len(ps); i++ {
		sum += df(ps[i], ps[i-1])
	}
	return sum
}

func vfRefLength(g orb.Geometry, df func(a, b orb.Point) float64) float64 {
	switch t := g.(type) {
	case orb.LineString:
		return vfPathLen(t, df)
	case orb.Ring:
		return vfPathLen(t, df)
	case orb.MultiLineString:
		sum := 0.0
		for _, l := range t {
			sum += vfPathLen(l, df)
		}
		return sum
	case orb.Polygon:
		sum := 0.0
		for _, r := range t {
			sum += vfPathLen(r, df)
		}
		return sum
	case orb.MultiPolygon:
		sum := 0.0
		for _, p := range t {
			sum += vfRefLength(p, df)
		}
		return sum
	case orb.Bound:
		return vfPathLen(t.ToRing(), df)
	case orb.Collection:
		sum := 0.0
		for _, m := range t {
			sum += vfRefLength(m, df)
		}
		return sum
	}
	return 0
}

func vfShoelace(r orb.Ring) float64 {
	// the ring closed implicitly, area taken positive
	n := len(r)
	if n < 3 {
		return 0
	}
	s := 0.0
	for i := 0; i < n; i++ {
		j := (i + 1) % n
		s += (r[i][0]-r[0][0])*(r[j][1]-r[0][1]) - (r[j][0]-r[0][0])*(r[i][1]-r[0][1])
	}
	if s < 0 {
		s = -s
	}
	return s / 2
}

func vfRefArea(g orb.Geometry) float64 {
	switch t := g.(type) {
	case orb.Ring:
		return vfShoelace(t)
	case orb.Polygon:
		if len(t) == 0 {
			return 0
		}
		a := vfShoelace(t[0])
		for _, h := range t[1:] {
			a -= vfShoelace(h)
		}
		return a
	case orb.MultiPolygon:
		a := 0.0
		for _, p := range t {
			a += vfRefArea(p)
		}
		return a
	case orb.Bound:
		return (t.Max[0] - t.Min[0]) * (t.Max[1] - t.Min[1])
	}
	return 0
}

func vfNear(a, b float64) bool {
	d := a - b
	if d < 0 {
		d = -d
	}
	m := a
	if m < 0 {
		m = -m
	}
	return d <= 1e-9*(1+m)
}

// bounds that are degenerate or have Min above Max on one axis: the generic functions treat a bound as
// its ring (b.ToRing()) / its polygon; both routes must agree with each other
func vfBoundSpecials() {
	for _, b := range []orb.Bound{
		{Min: orb.Point{1, 2}, Max: orb.Point{4, 6}},
		{Min: orb.Point{1, 2}, Max: orb.Point{1, 6}},
		{Min: orb.Point{1, 2}, Max: orb.Point{4, 2}},
		{Min: orb.Point{1, 2}, Max: orb.Point{1, 2}},
		{Min: orb.Point{4, 2}, Max: orb.Point{1, 6}},
		{Min: orb.Point{1, 6}, Max: orb.Point{4, 2}},
		{Min: orb.Point{4, 6}, Max: orb.Point{1, 2}},
		{},
	} {
		c1, a1 := planar.CentroidArea(b)
		c2, a2 := planar.CentroidArea(b.ToRing())
		vfAssert("bound-centroidarea-as-its-ring", c1 == c2 && a1 == a2)
		vfAssert("bound-area-as-its-ring", planar.Area(b) == planar.Area(b.ToRing()))
		vfAssert("bound-length-as-its-ring", planar.Length(b) == planar.Length(b.ToRing()))
		vfAssert("bound-geo-area-as-its-ring", geo.Area(b) == geo.Area(b.ToRing()))
		q := orb.Point{2.5, 3}
		d1, _ := planar.DistanceFromWithIndex(b, q)
		d2, _ := planar.DistanceFromWithIndex(b.ToRing(), q)
		vfAssert("bound-distancefrom-as-its-ring", d1 == d2)
		col := orb.Collection{b}
		_, ac := planar.CentroidArea(col)
		vfAssert("collection-of-a-bound-area", ac == a2)
	}
}

func vfMeasures(g orb.Geometry) {
	if _, isB := g.(orb.Bound); isB {
		vfBoundSpecials()
	}
	if _, isC := g.(orb.Collection); !isC {
		vfAssert("planar-area-agrees-with-kind", vfNear(planar.Area(g), vfRefArea(g)))
	}
	vfAssert("planar-length-agrees-with-kind", vfNear(planar.Length(g), vfRefLength(g, planar.Distance)))
	vfAssert("geo-length-agrees-with-kind", vfNear(geo.Length(g), vfRefLength(g, geo.Distance)))
	vfAssert("geo-haversine-length-agrees-with-kind", vfNear(geo.LengthHaversine(g), vfRefLength(g, geo.DistanceHaversine)))
}

func vfUnwrapMP(mp orb.MultiPoint) orb.Geometry {
	if len(mp) == 1 {
		return mp[0]
	}
	if mp == nil {
		return nil
	}
	return mp
}

func vfUnwrapMLS(mls orb.MultiLineString) orb.Geometry {
	if len(mls) == 1 {
		return mls[0]
	}
	if len(mls) == 0 {
		return nil
	}
	return mls
}
