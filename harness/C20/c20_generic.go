package zz_vfc20

import (
	"strconv"

	"github.com/paulmach/orb"
	"github.com/paulmach/orb/clip"
	"github.com/paulmach/orb/clip/smartclip"
	"github.com/paulmach/orb/encoding/ewkb"
	"github.com/paulmach/orb/encoding/wkb"
	"github.com/paulmach/orb/encoding/wkt"
	"github.com/paulmach/orb/geo"
	"github.com/paulmach/orb/maptile"
	"github.com/paulmach/orb/maptile/tilecover"
	"github.com/paulmach/orb/planar"
	"github.com/paulmach/orb/project"
	"github.com/paulmach/orb/simplify"
)

// Every exported function with a geometry-interface parameter, applied to every shape of the
// catalogue plus the nil interface. No Go run-time panic may be reachable; read-only functions
// must leave their argument unchanged.

type vfFn struct {
	name     string
	sym      int // coordinates: 0 symbolic reals, 1 symbolic IEEE doubles (all bit patterns), 2 small concrete values
	readonly bool
	call     func(g orb.Geometry)
}

var vfBox = orb.Bound{Min: orb.Point{-1, -1}, Max: orb.Point{3, 2}}

func vfFns() []vfFn {
	return []vfFn{
		{"orb.Clone", 0, true, func(g orb.Geometry) { orb.Clone(g) }},
		{"orb.Equal", 0, true, func(g orb.Geometry) { orb.Equal(g, g) }},
		{"orb.Round", 2, false, func(g orb.Geometry) { orb.Round(g, 3) }},
		{"Geometry methods", 0, true, func(g orb.Geometry) {
			if g != nil {
				g.Bound()
				g.Dimensions()
				g.GeoJSONType()
			}
		}},
		{"planar.Area", 2, true, func(g orb.Geometry) { planar.Area(g) }},
		{"planar.CentroidArea", 2, true, func(g orb.Geometry) { planar.CentroidArea(g) }},
		{"planar.Length", 2, true, func(g orb.Geometry) { planar.Length(g) }},
		{"planar.DistanceFrom", 2, true, func(g orb.Geometry) { planar.DistanceFrom(g, orb.Point{1, 1}) }},
		{"planar.DistanceFromWithIndex", 2, true, func(g orb.Geometry) { planar.DistanceFromWithIndex(g, orb.Point{1, 1}) }},
		{"geo.Area", 2, true, func(g orb.Geometry) { geo.Area(g) }},
		{"geo.Length", 2, true, func(g orb.Geometry) { geo.Length(g) }},
		{"geo.LengthHaversine", 2, true, func(g orb.Geometry) { geo.LengthHaversine(g) }},
		{"clip.Geometry", 2, false, func(g orb.Geometry) { clip.Geometry(vfBox, g) }},
		{"smartclip.Geometry", 2, false, func(g orb.Geometry) { smartclip.Geometry(vfBox, g, orb.CCW) }},
		{"project.Geometry", 0, false, func(g orb.Geometry) {
			project.Geometry(g, func(p orb.Point) orb.Point { return orb.Point{p[1], p[0]} })
		}},
		{"simplify.DouglasPeucker", 2, false, func(g orb.Geometry) { simplify.DouglasPeucker(0.5).Simplify(g) }},
		{"simplify.Radial", 2, false, func(g orb.Geometry) { simplify.Radial(planar.Distance, 0.5).Simplify(g) }},
		{"simplify.VisvalingamThreshold", 2, false, func(g orb.Geometry) { simplify.VisvalingamThreshold(0.5).Simplify(g) }},
		{"simplify.VisvalingamKeep", 2, false, func(g orb.Geometry) { simplify.VisvalingamKeep(3).Simplify(g) }},
		{"tilecover.Geometry", 2, true, func(g orb.Geometry) { tilecover.Geometry(g, maptile.Zoom(2)) }},
		{"wkb.Marshal", 1, true, func(g orb.Geometry) { wkb.Marshal(g) }},
		{"ewkb.Marshal", 1, true, func(g orb.Geometry) { ewkb.Marshal(g, 4326) }},
		{"wkt.Marshal", 2, true, func(g orb.Geometry) { wkt.Marshal(g) }},
	}
}

func vfNShapes(tier int) int { return vfShapeCount(tier) + 1 }

func vfC20Total_N(tier int) int { return len(vfFns()) * vfNShapes(1) }
func vfC20Total_Label(c int) string {
	f := vfFns()[c/vfNShapes(1)]
	s := c % vfNShapes(1)
	if s == 0 {
		return f.name + "(nil)"
	}
	return f.name + "(" + vfShapes()[s-1].name + ")"
}

func vfC20Total(c int) {
	f := vfFns()[c/vfNShapes(1)]
	s := c % vfNShapes(1)
	var g orb.Geometry
	if s > 0 {
		g = vfShapes()[s-1].mk(&vfGen{mode: f.sym})
	}
	before := vfSnapshot(g)
	if f.readonly {
		vfWatchBegin()
	}
	f.call(g)
	vfWatchEnd()
	vfReach("total")
	if f.readonly {
		vfAssert("read-only-argument-unchanged", vfUnchanged(g, before))
	} else {
		vfAssert("returned", true)
	}
}

func vfItoa2(i int) string { return strconv.Itoa(i) }
