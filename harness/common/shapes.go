package PKGNAME

// Shared geometry-shape catalogue for the harnesses: shapes (kinds, nesting, lengths, nil and
// empty members) are enumerated here; every coordinate is a fresh symbolic value.

import (
	"strconv"
	ORBIMPORT
)

type vfGen struct {
	n    int
	mode int    // 0: symbolic real, 1: symbolic IEEE double (all bit patterns), 2: small concrete ints, 3: number with a symbolic %g spelling, 4: small concrete fractions
	pfx  string // name prefix
	tok  int    // mode 3: length of the spelling
}

func (g *vfGen) f() float64 {
	g.n++
	name := g.pfx + "c" + strconv.Itoa(g.n)
	switch g.mode {
	case 1:
		return vfF64(name)
	case 2:
		return float64((g.n*7)%11) - 3
	case 3:
		return vfWktNum(name, g.tok)
	case 4:
		// small concrete values with a fractional part (for rounding)
		return float64((g.n*7)%11) - 3 + 0.0123456789*float64(g.n)
	}
	return vfReal(name)
}

func (g *vfGen) pt() ORBQPoint { return ORBQPoint{g.f(), g.f()} }

// a well-formed (non-empty) bound: Min <= Max on both axes
func (g *vfGen) bound() ORBQBound {
	b := ORBQBound{Min: g.pt(), Max: g.pt()}
	if g.mode != 2 && g.mode != 4 {
		vfAssume(vfAnd(b.Min[0] <= b.Max[0], b.Min[1] <= b.Max[1]))
	} else {
		b.Max[0], b.Max[1] = b.Min[0]+2, b.Min[1]+3
	}
	return b
}

// pts: n < 0 gives a nil slice, n == 0 an empty non-nil slice.
func (g *vfGen) pts(n int) []ORBQPoint {
	if n < 0 {
		return nil
	}
	p := make([]ORBQPoint, 0, n)
	for i := 0; i < n; i++ {
		p = append(p, g.pt())
	}
	return p
}

// closed ring with n distinct vertices + the repeated first one (n >= 1)
func (g *vfGen) closed(n int) ORBQRing {
	p := g.pts(n)
	return ORBQRing(append(p, p[0]))
}

func (g *vfGen) poly(lens ...int) ORBQPolygon {
	if len(lens) == 1 && lens[0] == -9 {
		return nil
	}
	p := make(ORBQPolygon, 0, len(lens))
	for _, l := range lens {
		p = append(p, ORBQRing(g.pts(l)))
	}
	return p
}

func (g *vfGen) mls(lens ...int) ORBQMultiLineString {
	m := make(ORBQMultiLineString, 0, len(lens))
	for _, l := range lens {
		m = append(m, ORBQLineString(g.pts(l)))
	}
	return m
}

type vfShapeDef struct {
	name  string
	quick bool
	mk    func(g *vfGen) ORBQGeometry
}

// vfShapes is the enumerated shape space. "quick" shapes come first so that a shape index means the
// same shape in both tiers.
func vfShapes() []vfShapeDef {
	all := []vfShapeDef{
		{"Point", true, func(g *vfGen) ORBQGeometry { return g.pt() }},
		{"MultiPoint(nil)", true, func(g *vfGen) ORBQGeometry { return ORBQMultiPoint(nil) }},
		{"MultiPoint{}", true, func(g *vfGen) ORBQGeometry { return ORBQMultiPoint{} }},
		{"MultiPoint[1]", true, func(g *vfGen) ORBQGeometry { return ORBQMultiPoint(g.pts(1)) }},
		{"MultiPoint[2]", true, func(g *vfGen) ORBQGeometry { return ORBQMultiPoint(g.pts(2)) }},
		{"MultiPoint[4]", false, func(g *vfGen) ORBQGeometry { return ORBQMultiPoint(g.pts(4)) }},
		{"MultiPoint[3]", false, func(g *vfGen) ORBQGeometry { return ORBQMultiPoint(g.pts(3)) }},
		{"LineString(nil)", true, func(g *vfGen) ORBQGeometry { return ORBQLineString(nil) }},
		{"LineString{}", true, func(g *vfGen) ORBQGeometry { return ORBQLineString{} }},
		{"LineString[1]", true, func(g *vfGen) ORBQGeometry { return ORBQLineString(g.pts(1)) }},
		{"LineString[2]", true, func(g *vfGen) ORBQGeometry { return ORBQLineString(g.pts(2)) }},
		{"LineString[4]", true, func(g *vfGen) ORBQGeometry { return ORBQLineString(g.pts(4)) }},
		{"LineString[3]", false, func(g *vfGen) ORBQGeometry { return ORBQLineString(g.pts(3)) }},
		{"MultiLineString(nil)", true, func(g *vfGen) ORBQGeometry { return ORBQMultiLineString(nil) }},
		{"MultiLineString{}", true, func(g *vfGen) ORBQGeometry { return ORBQMultiLineString{} }},
		{"MultiLineString[[2]]", true, func(g *vfGen) ORBQGeometry { return g.mls(2) }},
		{"MultiLineString[[0],[2]]", true, func(g *vfGen) ORBQGeometry { return g.mls(0, 2) }},
		{"MultiLineString[[2],[0]]", true, func(g *vfGen) ORBQGeometry { return g.mls(2, 0) }},
		{"MultiLineString[[nil],[1]]", true, func(g *vfGen) ORBQGeometry { return g.mls(-1, 1) }},
		{"MultiLineString[[1],[2]]", true, func(g *vfGen) ORBQGeometry { return g.mls(1, 2) }},
		{"MultiLineString[[2],[3],[1]]", false, func(g *vfGen) ORBQGeometry { return g.mls(2, 3, 1) }},
		{"MultiLineString[[0],[0]]", false, func(g *vfGen) ORBQGeometry { return g.mls(0, 0) }},
		{"Ring(nil)", true, func(g *vfGen) ORBQGeometry { return ORBQRing(nil) }},
		{"Ring{}", true, func(g *vfGen) ORBQGeometry { return ORBQRing{} }},
		{"Ring[1]", true, func(g *vfGen) ORBQGeometry { return ORBQRing(g.pts(1)) }},
		{"Ring[3]", true, func(g *vfGen) ORBQGeometry { return ORBQRing(g.pts(3)) }},
		{"Ring[4]", true, func(g *vfGen) ORBQGeometry { return ORBQRing(g.pts(4)) }},
		{"Ring[5]", false, func(g *vfGen) ORBQGeometry { return ORBQRing(g.pts(5)) }},
		{"Ring[3+close]", true, func(g *vfGen) ORBQGeometry { return g.closed(3) }},
		{"Ring[4+close]", false, func(g *vfGen) ORBQGeometry { return g.closed(4) }},
		{"Polygon(nil)", true, func(g *vfGen) ORBQGeometry { return ORBQPolygon(nil) }},
		{"Polygon{}", true, func(g *vfGen) ORBQGeometry { return ORBQPolygon{} }},
		{"Polygon[[0]]", true, func(g *vfGen) ORBQGeometry { return g.poly(0) }},
		{"Polygon[[nil]]", true, func(g *vfGen) ORBQGeometry { return g.poly(-1) }},
		{"Polygon[[3]]", true, func(g *vfGen) ORBQGeometry { return g.poly(3) }},
		{"Polygon[[4]]", true, func(g *vfGen) ORBQGeometry { return g.poly(4) }},
		{"Polygon[[5],[4]]", false, func(g *vfGen) ORBQGeometry { return g.poly(5, 4) }},
		{"Polygon[[3+c]]", true, func(g *vfGen) ORBQGeometry { return ORBQPolygon{g.closed(3)} }},
		{"Polygon[[3],[3]]", true, func(g *vfGen) ORBQGeometry { return g.poly(3, 3) }},
		{"Polygon[[0],[3]]", true, func(g *vfGen) ORBQGeometry { return g.poly(0, 3) }},
		{"Polygon[[4],[0],[3]]", false, func(g *vfGen) ORBQGeometry { return g.poly(4, 0, 3) }},
		{"MultiPolygon(nil)", true, func(g *vfGen) ORBQGeometry { return ORBQMultiPolygon(nil) }},
		{"MultiPolygon{}", true, func(g *vfGen) ORBQGeometry { return ORBQMultiPolygon{} }},
		{"MultiPolygon[{}]", true, func(g *vfGen) ORBQGeometry { return ORBQMultiPolygon{ORBQPolygon{}} }},
		{"MultiPolygon[nil]", true, func(g *vfGen) ORBQGeometry { return ORBQMultiPolygon{nil} }},
		{"MultiPolygon[[[3]]]", true, func(g *vfGen) ORBQGeometry { return ORBQMultiPolygon{g.poly(3)} }},
		{"MultiPolygon[{},[[3]]]", true, func(g *vfGen) ORBQGeometry { return ORBQMultiPolygon{ORBQPolygon{}, g.poly(3)} }},
		{"MultiPolygon[[[3]],{}]", true, func(g *vfGen) ORBQGeometry { return ORBQMultiPolygon{g.poly(3), ORBQPolygon{}} }},
		{"MultiPolygon[[[0]],[[3]]]", true, func(g *vfGen) ORBQGeometry { return ORBQMultiPolygon{g.poly(0), g.poly(3)} }},
		{"MultiPolygon[[[3]],[[3]]]", true, func(g *vfGen) ORBQGeometry { return ORBQMultiPolygon{g.poly(3), g.poly(3)} }},
		{"MultiPolygon[[[3],[3]],[[3+c]]]", false, func(g *vfGen) ORBQGeometry {
			return ORBQMultiPolygon{g.poly(3, 3), ORBQPolygon{g.closed(3)}}
		}},
		{"Bound", true, func(g *vfGen) ORBQGeometry { return g.bound() }},
		{"Collection(nil)", true, func(g *vfGen) ORBQGeometry { return ORBQCollection(nil) }},
		{"Collection{}", true, func(g *vfGen) ORBQGeometry { return ORBQCollection{} }},
		{"Collection[Point]", true, func(g *vfGen) ORBQGeometry { return ORBQCollection{g.pt()} }},
		{"Collection[LineString{},Point]", true, func(g *vfGen) ORBQGeometry {
			return ORBQCollection{ORBQLineString{}, g.pt()}
		}},
		{"Collection[Point,MultiPoint(nil)]", true, func(g *vfGen) ORBQGeometry {
			return ORBQCollection{g.pt(), ORBQMultiPoint(nil)}
		}},
		{"Collection[LineString[2],Polygon[[3]]]", true, func(g *vfGen) ORBQGeometry {
			return ORBQCollection{ORBQLineString(g.pts(2)), g.poly(3)}
		}},
		{"Collection[Collection[Point],Bound]", true, func(g *vfGen) ORBQGeometry {
			return ORBQCollection{ORBQCollection{g.pt()}, g.bound()}
		}},
		{"Collection[Collection{},MultiPolygon[{},[[3]]]]", false, func(g *vfGen) ORBQGeometry {
			return ORBQCollection{ORBQCollection{}, ORBQMultiPolygon{ORBQPolygon{}, g.poly(3)}}
		}},
		{"Collection[Collection[Collection[MultiPoint[2]]],Ring[3]]", false, func(g *vfGen) ORBQGeometry {
			return ORBQCollection{ORBQCollection{ORBQCollection{ORBQMultiPoint(g.pts(2))}}, ORBQRing(g.pts(3))}
		}},
	}
	var q, rest []vfShapeDef
	for _, s := range all {
		if s.quick {
			q = append(q, s)
		} else {
			rest = append(rest, s)
		}
	}
	return append(q, rest...)
}

func vfShapeCount(tier int) int {
	n := 0
	for _, s := range vfShapes() {
		if s.quick || tier > 0 {
			n++
		}
	}
	return n
}

// vfCoords flattens every coordinate of g in a fixed traversal order.
func vfCoords(g ORBQGeometry) []float64 {
	var out []float64
	pts := func(p []ORBQPoint) {
		for _, q := range p {
			out = append(out, q[0], q[1])
		}
	}
	switch g := g.(type) {
	case nil:
	case ORBQPoint:
		out = append(out, g[0], g[1])
	case ORBQMultiPoint:
		pts(g)
	case ORBQLineString:
		pts(g)
	case ORBQRing:
		pts(g)
	case ORBQMultiLineString:
		for _, l := range g {
			pts(l)
		}
	case ORBQPolygon:
		for _, r := range g {
			pts(r)
		}
	case ORBQMultiPolygon:
		for _, p := range g {
			for _, r := range p {
				pts(r)
			}
		}
	case ORBQBound:
		out = append(out, g.Min[0], g.Min[1], g.Max[0], g.Max[1])
	case ORBQCollection:
		for _, m := range g {
			out = append(out, vfCoords(m)...)
		}
	}
	return out
}

// vfSig is the structural signature: kind, nesting and lengths (nil and empty slices agree).
func vfSig(g ORBQGeometry) string {
	switch g := g.(type) {
	case nil:
		return "nil"
	case ORBQPoint:
		return "P"
	case ORBQMultiPoint:
		return "MP" + strconv.Itoa(len(g))
	case ORBQLineString:
		return "LS" + strconv.Itoa(len(g))
	case ORBQRing:
		return "R" + strconv.Itoa(len(g))
	case ORBQMultiLineString:
		s := "MLS("
		for _, l := range g {
			s += strconv.Itoa(len(l)) + ","
		}
		return s + ")"
	case ORBQPolygon:
		s := "PG("
		for _, r := range g {
			s += strconv.Itoa(len(r)) + ","
		}
		return s + ")"
	case ORBQMultiPolygon:
		s := "MPG("
		for _, p := range g {
			s += "("
			for _, r := range p {
				s += strconv.Itoa(len(r)) + ","
			}
			s += ")"
		}
		return s + ")"
	case ORBQBound:
		return "B"
	case ORBQCollection:
		s := "C("
		for _, m := range g {
			s += vfSig(m) + ";"
		}
		return s + ")"
	}
	return "?"
}

// vfBoundVertices lists the vertices that define the bound of g (outer rings only for polygons).
func vfBoundVertices(g ORBQGeometry) []ORBQPoint {
	var out []ORBQPoint
	switch g := g.(type) {
	case nil:
	case ORBQPoint:
		out = append(out, g)
	case ORBQMultiPoint:
		out = append(out, g...)
	case ORBQLineString:
		out = append(out, g...)
	case ORBQRing:
		out = append(out, g...)
	case ORBQMultiLineString:
		for _, l := range g {
			out = append(out, l...)
		}
	case ORBQPolygon:
		if len(g) > 0 {
			out = append(out, g[0]...)
		}
	case ORBQMultiPolygon:
		for _, p := range g {
			if len(p) > 0 {
				out = append(out, p[0]...)
			}
		}
	case ORBQBound:
		out = append(out, g.Min, g.Max)
	case ORBQCollection:
		for _, m := range g {
			out = append(out, vfBoundVertices(m)...)
		}
	}
	return out
}
