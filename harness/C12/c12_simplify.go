package simplify

import (
	"strconv"

	"github.com/paulmach/orb"
	"github.com/paulmach/orb/planar"
)

func vfLine(pfx string, n int) orb.LineString {
	var ls orb.LineString
	for i := 0; i < n; i++ {
		ls = append(ls, orb.Point{vfReal(pfx + strconv.Itoa(i) + "x"), vfReal(pfx + strconv.Itoa(i) + "y")})
	}
	return ls
}

func vfSamePt(a, b orb.Point) bool { return vfAnd(a[0] == b[0], a[1] == b[1]) }

// vfSubseq: out is the subsequence of in selected by the strictly increasing index map, which
// starts at 0 and ends at len(in)-1.
func vfSubseq(id string, in, out orb.LineString, im []int) {
	vfAssert(id+"-indexmap-length", len(im) == len(out))
	for i := range im {
		if i > 0 {
			vfAssert(id+"-indices-increasing", im[i] > im[i-1])
		}
		if i < len(out) && im[i] >= 0 && im[i] < len(in) {
			vfAssert(id+"-vertex-is-input-vertex", vfSamePt(out[i], in[im[i]]))
		}
	}
	if len(in) > 0 && len(im) > 0 {
		vfAssert(id+"-first-kept", im[0] == 0)
		vfAssert(id+"-last-kept", im[len(im)-1] == len(in)-1)
	}
}

func vfHas(im []int, k int) bool {
	for _, i := range im {
		if i == k {
			return true
		}
	}
	return false
}

// ---- Douglas-Peucker, distances uninterpreted: subsequence, endpoints, monotone in threshold, idempotent ----

func vfC12DP_N(tier int) int     { return 5 + tier }
func vfC12DP_Label(c int) string { return "vertices=" + strconv.Itoa(c+2) }

func vfC12DP(c int) {
	n := c + 2
	in := vfLine("v", n)
	t1, t2 := vfReal("t1"), vfReal("t2")
	vfAssume(vfAnd(t1 >= 0, t1 < t2))
	o1, m1 := DouglasPeucker(t1).simplify(in.Clone(), false, true)
	vfReach("dp")
	vfSubseq("dp", in, o1, m1)
	o2, m2 := DouglasPeucker(t2).simplify(in.Clone(), false, true)
	vfSubseq("dp-larger", in, o2, m2)
	for _, k := range m2 {
		vfAssert("dp-larger-threshold-keeps-subset", vfHas(m1, k))
	}
	// idempotent
	o3, _ := DouglasPeucker(t1).simplify(o1.Clone(), false, true)
	vfAssert("dp-idempotent-length", len(o3) == len(o1))
	for i := range o3 {
		if i < len(o1) {
			vfAssert("dp-idempotent-vertex", vfSamePt(o3[i], o1[i]))
		}
	}
}

// ---- Douglas-Peucker on closed rings (the ring paths pass area=true): same laws ----

func vfC12DPRing_N(tier int) int     { return 3 + tier }
func vfC12DPRing_Label(c int) string { return "closed ring, distinct vertices=" + strconv.Itoa(c+2) }

func vfC12DPRing(c int) {
	n := c + 2
	in := vfLine("v", n)
	in = append(in, in[0])
	t1, t2 := vfReal("t1"), vfReal("t2")
	vfAssume(vfAnd(t1 >= 0, t1 < t2))
	o1, m1 := DouglasPeucker(t1).simplify(in.Clone(), true, true)
	vfReach("dp-ring")
	vfSubseq("dp-ring", in, o1, m1)
	o2, m2 := DouglasPeucker(t2).simplify(in.Clone(), true, true)
	vfSubseq("dp-ring-larger", in, o2, m2)
	for _, k := range m2 {
		vfAssert("dp-ring-larger-threshold-keeps-subset", vfHas(m1, k))
	}
	// through the public method: the same vertices
	pub := DouglasPeucker(t1).Ring(orb.Ring(in.Clone()))
	vfAssert("dp-ring-public-same-length", len(pub) == len(o1))
}

// ---- Radial with an uninterpreted distance function ----

func vfC12Radial_N(tier int) int     { return 5 + tier }
func vfC12Radial_Label(c int) string { return "vertices=" + strconv.Itoa(c+1) }

func vfC12Radial(c int) {
	n := c + 1
	in := vfLine("v", n)
	t := vfReal("t")
	vfAssume(t >= 0)
	df := func(a, b orb.Point) float64 { return vfUF4("dist", a[0], a[1], b[0], b[1]) }
	out, im := Radial(df, t).simplify(in.Clone(), false, true)
	vfReach("radial")
	vfSubseq("radial", in, out, im)
	// consecutive kept vertices are farther apart than the threshold, except possibly the last pair
	for i := 1; i+1 < len(im); i++ {
		vfAssert("radial-kept-farther-than-threshold", df(in[im[i-1]], in[im[i]]) > t)
	}
	// every dropped vertex is within the threshold of the kept vertex before it
	for k := 1; k < n-1; k++ {
		if !vfHas(im, k) {
			prev := 0
			for _, i := range im {
				if i < k {
					prev = i
				}
			}
			vfAssert("radial-dropped-within-threshold", df(in[prev], in[k]) <= t)
		}
	}
}

// ---- Visvalingam, triangle areas uninterpreted ----

func vfC12Vis_N(tier int) int { return 3 * (3 + tier) }
func vfC12Vis_Label(c int) string {
	return "vertices=" + strconv.Itoa(c/3+2) + " kind=" + []string{"line", "open-ring", "closed-ring"}[c%3]
}

func vfC12Vis(c int) {
	n := c/3 + 2
	kind := c % 3
	in := vfLine("v", n)
	if kind == 2 {
		in = append(in, in[0])
	}
	area := kind > 0
	def := []int{2, 3, 4}[kind]
	t1, t2 := vfReal("t1"), vfReal("t2")
	vfAssume(vfAnd(t1 >= 0, t1 < t2))
	o1, m1 := VisvalingamThreshold(t1).simplify(in.Clone(), area, true)
	vfReach("vis")
	if len(in) > 1 {
		vfSubseq("vis", in, o1, m1)
	}
	min := def
	if len(in) < min {
		min = len(in)
	}
	vfAssert("vis-at-least-default-minimum", len(o1) >= min)
	if kind == 2 && len(o1) > 0 {
		vfAssert("vis-closed-ring-stays-closed", vfSamePt(o1[0], o1[len(o1)-1]))
	}
	_, m2 := VisvalingamThreshold(t2).simplify(in.Clone(), area, true)
	if len(in) > def {
		for _, k := range m2 {
			vfAssert("vis-larger-threshold-keeps-subset", vfHas(m1, k))
		}
	}
	// keep-N returns exactly N when the input is longer
	for keep := 2; keep <= len(in); keep++ {
		ok, _ := VisvalingamKeep(keep).simplify(in.Clone(), area, true)
		vfAssert("vis-keep-exactly-n", len(ok) == keep)
	}
	// requested minimum with a threshold
	for keep := 2; keep < len(in); keep++ {
		o, _ := Visvalingam(t2, keep).simplify(in.Clone(), area, true)
		vfAssert("vis-never-below-requested", len(o) >= keep)
	}
}

// ---- geometric: Douglas-Peucker error bound on concrete lines, threshold symbolic (real kernel) ----

var vfLines = []orb.LineString{
	{{0, 0}, {1, 1}, {2, 0}, {3, 2}, {4, 0}, {5, 1}},
	{{0, 0}, {1, 0}, {2, 0}, {3, 0}, {4, 0}},             // collinear
	{{0, 0}, {2, 3}, {2, 3}, {4, 1}, {0, 0}},             // repeated vertex, coincident endpoints
	{{0, 0}, {0.5, 0.25}, {1, -0.25}, {1.5, 2}, {2, 0}, {3, 0.125}, {4, -1}, {5, 0}},
	{{0, 0}, {3, 4}},
	{{0, 0}, {10, 0.125}, {5, 0}},                        // doubles back: vertex beyond the END of the kept segment (t > 1 clamp)
	{{0, 0}, {-3, 0.25}, {4, 0}},                         // vertex before the START of the kept segment (t < 0 clamp)
	{{0, 0}, {8, 0.5}, {12, -0.25}, {5, 0}, {-2, 0.125}, {6, 0}}, // overshoots on both sides
	{{0, 0}, {7, 0.25}, {0, 0}},                          // closed: the kept segment is a single point
}

func vfC12DPBound_N(tier int) int     { return len(vfLines) }
func vfC12DPBound_Label(c int) string { return "line#" + strconv.Itoa(c) }

func vfC12DPBound(c int) {
	in := vfLines[c].Clone()
	t := vfReal("t")
	vfAssume(t >= 0)
	out, im := DouglasPeucker(t).simplify(in.Clone(), false, true)
	vfReach("dp-bound")
	vfSubseq("dpb", in, out, im)
	for k := range in {
		// the kept segment that spans vertex k
		lo, hi := 0, len(in)-1
		for _, i := range im {
			if i <= k {
				lo = i
			}
		}
		for j := len(im) - 1; j >= 0; j-- {
			if im[j] >= k {
				hi = im[j]
			}
		}
		d2 := planar.DistanceFromSegmentSquared(in[lo], in[hi], in[k])
		vfAssert("dp-every-vertex-within-threshold", d2 <= t*t)
	}
	// radial on the same line with the real distance
	ro, rim := Radial(planar.Distance, t).simplify(in.Clone(), false, true)
	vfSubseq("radialb", in, ro, rim)
	for i := 1; i+1 < len(rim); i++ {
		vfAssert("radial-real-distance-kept-farther", planar.DistanceSquared(in[rim[i-1]], in[rim[i]]) > t*t)
	}
}

// ---- wrappers: rings and polygons reduced to <= 2 points are dropped; generic entry point ----

func vfC12Wrappers_N(tier int) int     { return 1 }
func vfC12Wrappers_Label(c int) string { return "polygon/multipolygon wrappers" }

func vfC12Wrappers(c int) {
	s := DouglasPeucker(10) // everything collapses to its endpoints
	vfReach("wrappers")
	p := orb.Polygon{{{0, 0}, {4, 0}, {4, 4}, {0, 4}, {0, 0}}, {{1, 1}, {2, 1}, {2, 2}, {1, 1}}}
	sp := s.Polygon(p.Clone())
	vfAssert("polygon-collapsed-hole-dropped", len(sp) == 1)
	mp := orb.MultiPolygon{p.Clone(), {{{9, 9}, {9, 9.5}, {9.5, 9}, {9, 9}}}}
	smp := s.MultiPolygon(mp)
	vfAssert("multipolygon-collapsed-member-dropped", len(smp) == 0)
	r := s.Ring(orb.Ring{{0, 0}, {1, 0.001}, {2, 0}, {0, 0}})
	vfAssert("ring-keeps-endpoints", len(r) >= 2 && r[0] == r[len(r)-1])
	// several holes: the ones that collapse are dropped, the others stay, in order, wherever they are listed
	s1 := DouglasPeucker(1)
	outer := orb.Ring{{0, 0}, {10, 0}, {10, 10}, {0, 10}, {0, 0}}
	tiny := orb.Ring{{4, 4}, {4.1, 4}, {4.1, 4.1}, {4, 4}}
	big := orb.Ring{{6, 6}, {9, 6}, {9, 9}, {6, 9}, {6, 6}}
	big2 := orb.Ring{{1, 6}, {3, 6}, {3, 9}, {1, 9}, {1, 6}}
	for k, holes := range [][]orb.Ring{{tiny, big}, {big, tiny}, {tiny, big, big2}, {big, tiny, big2}, {tiny, tiny, big}} {
		p := orb.Polygon{outer.Clone()}
		var want []orb.Ring
		for _, h := range holes {
			p = append(p, h.Clone())
			if len(h) > 4 {
				want = append(want, h)
			}
		}
		for via := 0; via < 3; via++ {
			var got orb.Polygon
			switch via {
			case 0:
				got = s1.Polygon(p.Clone())
			case 1:
				mp := s1.MultiPolygon(orb.MultiPolygon{p.Clone()})
				vfAssert("multipolygon-keeps-the-polygon", len(mp) == 1)
				if len(mp) == 1 {
					got = mp[0]
				}
			default:
				got, _ = s1.Simplify(p.Clone()).(orb.Polygon)
			}
			id := "holes#" + strconv.Itoa(k) + "-via#" + strconv.Itoa(via)
			vfAssert("surviving-holes-count "+id, len(got) == 1+len(want))
			if len(got) == 1+len(want) {
				vfAssert("outer-ring-kept "+id, got[0].Equal(outer))
				for i, w := range want {
					vfAssert("surviving-hole-kept-in-order "+id, got[1+i].Equal(w))
				}
			}
		}
	}
}

// ---- through the public methods (LineString / Ring wrappers), kernels uninterpreted ----

func vfC12Public_N(tier int) int     { return 3 + tier }
func vfC12Public_Label(c int) string { return "vertices=" + strconv.Itoa(c+2) }

func vfC12Public(c int) {
	n := c + 2
	in := vfLine("v", n)
	t := vfReal("t")
	vfAssume(t >= 0)
	df := func(a, b orb.Point) float64 { return vfUF4("dist", a[0], a[1], b[0], b[1]) }
	vfReach("public")
	// radial: consecutive kept vertices farther apart than the threshold, except possibly the last pair
	out := Radial(df, t).LineString(in.Clone())
	vfAssert("radial-keeps-endpoints", len(out) >= 1 && vfSymTrue(vfSamePt(out[0], in[0])) && vfSymTrue(vfSamePt(out[len(out)-1], in[n-1])))
	for i := 1; i+1 < len(out); i++ {
		vfAssert("radial-public-kept-farther-than-threshold", df(out[i-1], out[i]) > t)
	}
	// Visvalingam keep-N returns exactly N when the input is longer
	for keep := 2; keep <= n; keep++ {
		vfAssert("vis-public-keep-exactly-n", len(VisvalingamKeep(keep).LineString(in.Clone())) == keep)
	}
	// Douglas-Peucker with a threshold above every distance keeps only the end points
	dp := DouglasPeucker(t).LineString(in.Clone())
	vfAssert("dp-public-keeps-endpoints", len(dp) >= 2 && vfSymTrue(vfSamePt(dp[0], in[0])) && vfSymTrue(vfSamePt(dp[len(dp)-1], in[n-1])))
}

func vfSymTrue(c bool) bool {
	if c {
		return true
	}
	return false
}
