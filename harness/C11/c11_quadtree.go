package quadtree

import (
	"strconv"

	"github.com/paulmach/orb"
)

// stored objects: identity matters (duplicates of the same point are distinct pointers)
type vfP struct {
	pt orb.Point
	id int
}

func (p *vfP) Point() orb.Point { return p.pt }

var vfBound = orb.Bound{Min: orb.Point{0, 0}, Max: orb.Point{4, 4}}

// point alphabet: inside, on both root midlines, on one midline, on the bound corner, outside
var vfAlpha = []orb.Point{{1, 1}, {2, 2}, {3, 1}, {2, 3}, {4, 4}, {5, 5}, {1, 3}, {0.5, 0.5}}

const (
	vfOpAdd0   = 0  // .. 7: add alphabet point
	vfOpRmPt0  = 8  // .. 11: remove by point (alphabet 0..3)
	vfOpRmFst  = 12 // remove the oldest live object by identity
	vfOpRmLst  = 13 // remove the newest live object by identity
	vfOpRmGone = 14 // remove (by identity) an object that is not in the tree
	vfNOps     = 15
)

type vfModel struct {
	q    *Quadtree
	live []*vfP // the multiset, in insertion order
	n    int
}

func vfOpName(op int) string {
	switch {
	case op < 8:
		return "add" + strconv.Itoa(op)
	case op < 12:
		return "rmpt" + strconv.Itoa(op-8)
	case op == vfOpRmFst:
		return "rmfirst"
	case op == vfOpRmLst:
		return "rmlast"
	}
	return "rmgone"
}

func (m *vfModel) removeLive(i int) {
	m.live = append(append([]*vfP{}, m.live[:i]...), m.live[i+1:]...)
}

// apply executes one operation on the real tree and on the list model and checks the return value.
func (m *vfModel) apply(op int) {
	switch {
	case op < 8:
		p := &vfP{pt: vfAlpha[op], id: m.n}
		m.n++
		err := m.q.Add(p)
		if vfBound.Contains(p.pt) {
			vfAssert("add-inside-accepted", err == nil)
			m.live = append(m.live, p)
		} else {
			vfAssert("add-outside-rejected", err == ErrPointOutsideOfBounds)
		}
	case op < 12:
		pt := vfAlpha[op-8]
		idx := -1
		for i, l := range m.live {
			if l.pt == pt {
				idx = i
				break
			}
		}
		got := m.q.Remove(&vfP{pt: pt, id: -1}, nil)
		vfAssert("remove-by-point-reports-match", got == (idx >= 0))
		if idx >= 0 {
			// exactly one object with that point disappears; which one is not specified: find it
			m.syncRemoved(pt)
		}
	case op == vfOpRmFst || op == vfOpRmLst:
		if len(m.live) == 0 {
			got := m.q.Remove(&vfP{pt: orb.Point{1, 1}, id: -1}, func(p orb.Pointer) bool { return false })
			vfAssert("remove-from-empty-false", !got)
			return
		}
		i := 0
		if op == vfOpRmLst {
			i = len(m.live) - 1
		}
		target := m.live[i]
		got := m.q.Remove(target, func(p orb.Pointer) bool { return p.(*vfP) == target })
		vfAssert("remove-by-identity-true", got)
		m.removeLive(i)
	default:
		ghost := &vfP{pt: orb.Point{1, 1}, id: -2}
		got := m.q.Remove(ghost, func(p orb.Pointer) bool { return p.(*vfP) == ghost })
		vfAssert("remove-absent-false", !got)
	}
}

// after a remove-by-point: the tree must hold all live objects except exactly one with that point
func (m *vfModel) syncRemoved(pt orb.Point) {
	stored := vfWalk(m.q)
	missing := -1
	for i, l := range m.live {
		found := false
		for _, s := range stored {
			if s == l {
				found = true
			}
		}
		if !found {
			vfAssert("remove-by-point-removes-that-point", l.pt == pt)
			vfAssert("remove-by-point-removes-one", missing == -1)
			missing = i
		}
	}
	vfAssert("remove-by-point-removed-something", missing >= 0)
	if missing >= 0 {
		m.removeLive(missing)
	}
}

// vfWalk returns every stored pointer and checks the structural invariant on the way:
// each value lies in the cell of its node.
func vfWalk(q *Quadtree) []*vfP {
	var out []*vfP
	var rec func(n *node, l, r, b, t float64)
	rec = func(n *node, l, r, b, t float64) {
		if n == nil {
			return
		}
		if n.Value != nil {
			p := n.Value.(*vfP)
			vfAssert("value-in-node-cell", l <= p.pt[0] && p.pt[0] <= r && b <= p.pt[1] && p.pt[1] <= t)
			out = append(out, p)
		}
		cx, cy := (l+r)/2, (b+t)/2
		rec(n.Children[0], l, cx, cy, t)
		rec(n.Children[1], cx, r, cy, t)
		rec(n.Children[2], l, cx, b, cy)
		rec(n.Children[3], cx, r, b, cy)
	}
	rec(q.root, q.bound.Min[0], q.bound.Max[0], q.bound.Min[1], q.bound.Max[1])
	return out
}

func (m *vfModel) checkContents() {
	stored := vfWalk(m.q)
	vfAssert("multiset-size", len(stored) == len(m.live))
	for _, l := range m.live {
		n := 0
		for _, s := range stored {
			if s == l {
				n++
			}
		}
		vfAssert("multiset-member-once", n == 1)
	}
}

// ---- history enumeration ----

// histories: index -> op sequence. First all sequences of length 1, then 2, ... (base vfNOps),
// then pseudo-random longer ones.
// hand-written histories aimed at the removal mechanics (a removed leaf leaves a placeholder, the
// root's value is removed and a child promoted, re-adding into an emptied leaf, duplicates)
var vfHand = [][]int{
	{0, 2, 6, 13, 12},       // remove a leaf child of the root, then the root's value: a point is still stored
	{0, 6, 2, 12},           // remove the root's value with two children
	{0, 6, 13, 12},          // leaf, then root: the tree is empty again
	{0, 6, 2, 13, 13, 12},   // everything removed, newest first
	{0, 7, 7, 13, 12},       // chain of duplicates below the root
	{1, 0, 2, 3, 6, 12, 12}, // centre root with four children, root removed twice
	{0, 6, 13, 6, 12},       // re-add into the emptied leaf, then remove the root
	{0, 2, 6, 13, 12, 6},    // the first history followed by an add
	{0, 0, 0, 12, 12},       // duplicates of the root point
	{4, 0, 12, 0},           // root on the bound corner
	{0, 6, 2, 3, 13, 13, 12, 12},
	{1, 6, 0, 13, 12, 13},
}

const vfHandBase = 1 << 20

func vfHistory(c int) []int {
	if c >= vfHandBase {
		return vfHand[c-vfHandBase]
	}
	n := vfNOps
	for l := 1; l <= 3; l++ {
		cnt := 1
		for i := 0; i < l; i++ {
			cnt *= n
		}
		if c < cnt {
			ops := make([]int, l)
			for i := l - 1; i >= 0; i-- {
				ops[i] = c % n
				c /= n
			}
			return ops
		}
		c -= cnt
	}
	// pseudo-random histories of length 4..9
	x := uint32(c)*2654435761 + 12345
	l := 4 + int(x>>28)%4
	ops := make([]int, l)
	for i := range ops {
		x = x*1664525 + 1013904223
		ops[i] = int(x>>16) % n
		if i < 3 && ops[i] >= 8 {
			ops[i] = int(x>>8) % 8 // start with adds so that removals have something to do
		}
	}
	return ops
}

func vfHistLabel(c int) string {
	s := ""
	for _, o := range vfHistory(c) {
		s += vfOpName(o) + " "
	}
	return s
}

func vfBuild(c int) *vfModel {
	m := &vfModel{q: New(vfBound)}
	for _, op := range vfHistory(c) {
		m.apply(op)
		m.checkContents()
	}
	return m
}

// query points: any real point with |coordinate| <= 2^20 (so that squared distances stay finite)
func vfQuery() orb.Point {
	q := orb.Point{vfReal("qx"), vfReal("qy")}
	vfAssume(vfAnd(vfAnd(q[0] >= -1048576, q[0] <= 1048576), vfAnd(q[1] >= -1048576, q[1] <= 1048576)))
	return q
}

func vfD2(p *vfP, q orb.Point) float64 {
	dx, dy := p.pt[0]-q[0], p.pt[1]-q[1]
	return dx*dx + dy*dy
}

// ---- queries against the list model; the query arguments are symbolic ----

func vfC11Find_N(tier int) int {
	if tier == 0 {
		return vfNOps + len(vfHand) + 42
	}
	return vfNOps + len(vfHand) + 42 + vfNOps*vfNOps + 150
}

func vfC11Find_Label(c int) string { return vfHistLabel(vfFindIndex(c)) }

// index mapping: 0..14 length-1; 15..44 a slice of the length-2 histories; 45..74 pseudo-random
// longer histories; beyond (thorough): all length-2 histories and 150 more random ones of length 4..7.
// (With every fifth length-3 history and 500 random ones the four query harnesses did not finish in 55
// minutes on 16 cores; with all 3375 length-3 histories not in 50 minutes either.)
func vfFindIndex(c int) int {
	all := vfNOps + vfNOps*vfNOps + vfNOps*vfNOps*vfNOps
	if c < vfNOps {
		return c
	}
	c -= vfNOps
	if c < len(vfHand) {
		return vfHandBase + c
	}
	c -= len(vfHand)
	if c < 30 {
		return vfNOps + (c*7+c/4)%(vfNOps*vfNOps)
	}
	c -= 30
	if c < 12 {
		return all + c
	}
	c -= 12
	if c < vfNOps*vfNOps {
		return vfNOps + c
	}
	c -= vfNOps * vfNOps
	return all + 12 + c
}

func vfC11Find(c int) {
	m := vfBuild(vfFindIndex(c))
	q := vfQuery()
	vfReach("find")
	got := m.q.Find(q)
	if len(m.live) == 0 {
		vfAssert("find-empty-nil", got == nil)
	} else {
		vfAssert("find-nonempty", got != nil)
		if got != nil {
			g := got.(*vfP)
			isStored := false
			for _, l := range m.live {
				if l == g {
					isStored = true
				}
				vfAssert("find-minimal", vfD2(g, q) <= vfD2(l, q))
			}
			vfAssert("find-returns-stored", isStored)
		}
	}
}

func vfC11Matching_N(tier int) int     { return vfC11Find_N(tier) }
func vfC11Matching_Label(c int) string { return vfHistLabel(vfFindIndex(c)) }

func vfC11Matching(c int) {
	m := vfBuild(vfFindIndex(c))
	q := vfQuery()
	vfReach("matching")
	// filtered variant: a symbolic accept bit per stored pointer
	acc := make([]bool, m.n)
	for i := range acc {
		acc[i] = vfBool("accept" + strconv.Itoa(i))
	}
	gm := m.q.Matching(q, func(p orb.Pointer) bool { return acc[p.(*vfP).id] })
	anyAcc := false
	for _, l := range m.live {
		anyAcc = vfOr(anyAcc, acc[l.id])
	}
	if gm == nil {
		vfAssert("matching-nil-iff-none-accepted", vfNot(anyAcc))
	} else {
		g := gm.(*vfP)
		vfAssert("matching-accepted", acc[g.id])
		for _, l := range m.live {
			vfAssert("matching-minimal", vfImplies(acc[l.id], vfD2(g, q) <= vfD2(l, q)))
		}
	}
}

func vfC11KNearest_N(tier int) int     { return vfC11Find_N(tier) }
func vfC11KNearest_Label(c int) string { return vfHistLabel(vfFindIndex(c)) }

func vfC11KNearest(c int) {
	m := vfBuild(vfFindIndex(c))
	q := vfQuery()
	maxd := vfReal("maxdist")
	vfAssume(maxd > 0)
	vfReach("knearest")
	vfAssert("knearest-k0-empty", len(m.q.KNearest(nil, q, 0)) == 0)
	for k := 1; k <= 3; k++ {
		for lim := 0; lim < 2; lim++ {
			if (k+lim)%2 == 1 && k != 2 {
				continue // (k=1,limit) (k=2,both) (k=3,limit): four calls per tree
			}
			var res []orb.Pointer
			if lim == 0 {
				res = m.q.KNearest(nil, q, k)
			} else {
				res = m.q.KNearest(nil, q, k, maxd)
			}
			vfAssert("knearest-at-most-k", len(res) <= k)
			in := make([]bool, m.n)
			for i, r := range res {
				g := r.(*vfP)
				stored := false
				for _, l := range m.live {
					if l == g {
						stored = true
					}
				}
				vfAssert("knearest-returns-stored", stored)
				vfAssert("knearest-distinct", !in[g.id])
				in[g.id] = true
				if i > 0 {
					vfAssert("knearest-sorted", vfD2(res[i-1].(*vfP), q) <= vfD2(g, q))
				}
				if lim == 1 {
					vfAssert("knearest-within-limit", vfD2(g, q) < maxd*maxd)
				}
			}
			for _, l := range m.live {
				if in[l.id] {
					continue
				}
				if len(res) == k {
					vfAssert("knearest-omitted-not-closer", vfD2(l, q) >= vfD2(res[k-1].(*vfP), q))
				} else if lim == 1 {
					vfAssert("knearest-omitted-beyond-limit", vfD2(l, q) >= maxd*maxd)
				} else {
					vfAssert("knearest-all-returned-when-fewer-than-k", false)
				}
			}
		}
	}
}

func vfC11InBound_N(tier int) int     { return vfC11Find_N(tier) }
func vfC11InBound_Label(c int) string { return vfHistLabel(vfFindIndex(c)) }

func vfC11InBound(c int) {
	m := vfBuild(vfFindIndex(c))
	b := orb.Bound{Min: orb.Point{vfReal("minx"), vfReal("miny")}, Max: orb.Point{vfReal("maxx"), vfReal("maxy")}}
	vfAssume(vfAnd(b.Min[0] <= b.Max[0], b.Min[1] <= b.Max[1]))
	vfReach("inbound")
	res := m.q.InBound(nil, b)
	in := make([]bool, m.n)
	for _, r := range res {
		g := r.(*vfP)
		vfAssert("inbound-no-duplicates", !in[g.id])
		in[g.id] = true
	}
	for _, l := range m.live {
		inside := vfAnd(vfAnd(b.Min[0] <= l.pt[0], l.pt[0] <= b.Max[0]), vfAnd(b.Min[1] <= l.pt[1], l.pt[1] <= b.Max[1]))
		if in[l.id] {
			vfAssert("inbound-returned-is-inside", inside)
		} else {
			vfAssert("inbound-omitted-is-outside", vfNot(inside))
		}
	}
	vfAssert("inbound-only-stored", len(res) <= len(m.live))
	// filtered
	acc := make([]bool, m.n)
	for i := range acc {
		acc[i] = vfBool("accept" + strconv.Itoa(i))
	}
	res2 := m.q.InBoundMatching(nil, b, func(p orb.Pointer) bool { return acc[p.(*vfP).id] })
	in2 := make([]bool, m.n)
	for _, r := range res2 {
		in2[r.(*vfP).id] = true
	}
	for _, l := range m.live {
		inside := vfAnd(vfAnd(b.Min[0] <= l.pt[0], l.pt[0] <= b.Max[0]), vfAnd(b.Min[1] <= l.pt[1], l.pt[1] <= b.Max[1]))
		if in2[l.id] {
			vfAssert("inbound-matching-returned", vfAnd(inside, acc[l.id]))
		} else {
			vfAssert("inbound-matching-omitted", vfNot(vfAnd(inside, acc[l.id])))
		}
	}
}
