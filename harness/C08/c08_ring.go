package clip

import (
	"strconv"

	"github.com/paulmach/orb"
)

var vfRBoxes = []orb.Bound{
	{Min: orb.Point{0, 0}, Max: orb.Point{2, 2}},
	{Min: orb.Point{0.5, -1}, Max: orb.Point{3, 1.5}},
}

// closed rings on integer / half-integer coordinates: convex, concave, star shaped, self touching,
// edges running along the box boundary, vertices on it, wholly inside, wholly outside, enclosing
var vfRings = []orb.Ring{
	{{-1, -1}, {3, -1}, {3, 3}, {-1, 3}, {-1, -1}},                                         // encloses both boxes
	{{0.5, 0.5}, {1.5, 0.5}, {1.5, 1.25}, {0.5, 1.25}, {0.5, 0.5}},                         // wholly inside
	{{4, 4}, {5, 4}, {5, 5}, {4, 4}},                                                       // disjoint
	{{-1, 1}, {1, -1}, {3, 1}, {1, 3}, {-1, 1}},                                            // diamond through the corners' neighbourhood
	{{1, 1}, {4, 1}, {4, 4}, {1, 4}, {1, 1}},                                               // overlaps a corner
	{{0, 0}, {2, 0}, {2, 2}, {0, 2}, {0, 0}},                                               // exactly box 0
	{{-1, 0}, {3, 0}, {3, 1}, {-1, 1}, {-1, 0}},                                            // edge along the bottom of box 0
	{{-1, -1}, {3, -1}, {3, 3}, {1, 0.5}, {-1, 3}, {-1, -1}},                               // concave (notch)
	{{1, -2}, {1.5, 0.5}, {4, 1}, {1.5, 1.5}, {1, 4}, {0.5, 1.5}, {-2, 1}, {0.5, 0.5}, {1, -2}}, // star
	{{-1, -1}, {1, 1}, {3, -1}, {3, 3}, {1, 1}, {-1, 3}, {-1, -1}},                         // self touching at (1,1)
	{{-1, 0.5}, {1, 0.5}, {1, 3}, {-1, 3}, {-1, 0.5}},                                      // left part
	{{0, 2}, {2, 2}, {1, 3}, {0, 2}},                                                       // touches the top edge of box 0 from outside
	{{-2, -2}, {5, -2}, {5, 5}, {-2, 5}},                                                   // unclosed spelling, encloses
	{{1, 1}, {1, 1}, {1, 1}, {1, 1}},                                                       // degenerate
}

func vfC08Cases() int { return len(vfRings) * len(vfRBoxes) }
func vfC08Label(c int) string {
	return "ring#" + strconv.Itoa(c%len(vfRings)) + " box#" + strconv.Itoa(c/len(vfRings))
}

// even-odd membership of q in the implicitly closed ring (cross-multiplied, half-open rule)
func vfEvenOdd(r orb.Ring, q orb.Point) bool {
	in := false
	n := len(r)
	for i := 0; i < n; i++ {
		s, e := r[i], r[(i+1)%n]
		if vfSymEq(s[1], e[1]) {
			continue
		}
		lo, hi := s, e
		up := s[1] < e[1]
		if !up {
			lo, hi = e, s
		}
		straddle := vfAnd(lo[1] <= q[1], q[1] < hi[1])
		left := (q[0]-lo[0])*(hi[1]-lo[1]) < (q[1]-lo[1])*(hi[0]-lo[0])
		cross := vfAnd(straddle, left)
		in = vfOr(vfAnd(in, vfNot(cross)), vfAnd(vfNot(in), cross))
	}
	return in
}

// forks when the operands are symbolic
func vfSymEq(a, b float64) bool {
	if a == b {
		return true
	}
	return false
}

func vfOnRing(r orb.Ring, q orb.Point) bool {
	on := false
	n := len(r)
	for i := 0; i < n; i++ {
		s, e := r[i], r[(i+1)%n]
		col := (q[0]-s[0])*(e[1]-s[1]) == (q[1]-s[1])*(e[0]-s[0])
		within := vfAnd(vfAnd(vfMinF(s[0], e[0]) <= q[0], q[0] <= vfMaxF(s[0], e[0])), vfAnd(vfMinF(s[1], e[1]) <= q[1], q[1] <= vfMaxF(s[1], e[1])))
		on = vfOr(on, vfAnd(col, within))
	}
	return on
}

func vfMinF(a, b float64) float64 { return vfIteF(a < b, a, b) }
func vfMaxF(a, b float64) float64 { return vfIteF(a > b, a, b) }

func vfInBoxC(b orb.Bound, p orb.Point) bool {
	return vfAnd(vfAnd(b.Min[0] <= p[0], p[0] <= b.Max[0]), vfAnd(b.Min[1] <= p[1], p[1] <= b.Max[1]))
}

func vfArea2(r orb.Ring) float64 {
	s := 0.0
	n := len(r)
	for i := 0; i < n; i++ {
		j := (i + 1) % n
		s += r[i][0]*r[j][1] - r[j][0]*r[i][1]
	}
	return s
}

// ---- region preserved: for every point strictly inside the box and off the ring ----

func vfC08Region_N(tier int) int     { return vfC08Cases() }
func vfC08Region_Label(c int) string { return vfC08Label(c) }

func vfC08Region(c int) {
	in := vfRings[c%len(vfRings)]
	box := vfRBoxes[c/len(vfRings)]
	closedIn := len(in) > 1 && in[0] == in[len(in)-1]
	out := Ring(box, in.Clone())
	vfReach("region")
	for _, v := range out {
		vfAssert("vertex-in-box", vfInBoxC(box, v))
	}
	if closedIn && len(out) > 0 {
		vfAssert("output-closed", out[0] == out[len(out)-1])
	}
	if !closedIn {
		// the region claim is for closed rings; an unclosed vertex list is clipped as the open path it is
		return
	}
	q := orb.Point{vfReal("qx"), vfReal("qy")}
	vfAssume(vfAnd(vfAnd(box.Min[0] < q[0], q[0] < box.Max[0]), vfAnd(box.Min[1] < q[1], q[1] < box.Max[1])))
	open := in
	if closedIn {
		open = in[:len(in)-1]
	}
	vfAssume(vfNot(vfOnRing(open, q)))
	wantIn := vfEvenOdd(open, q)
	if len(out) == 0 {
		vfAssert("nothing-remains-only-if-nothing-inside", vfNot(wantIn))
		return
	}
	oo := out
	if len(out) > 1 && out[0] == out[len(out)-1] {
		oo = out[:len(out)-1]
	}
	vfAssume(vfNot(vfOnRing(oo, q)))
	vfAssert("region-preserved", vfEvenOdd(oo, q) == wantIn)
}

// ---- signed area is additive when the box is split (split coordinate symbolic) ----

func vfC08Split_N(tier int) int     { return 2 * vfC08Cases() }
func vfC08Split_Label(c int) string { return vfC08Label(c/2) + []string{" vertical", " horizontal"}[c%2] }

func vfC08Split(c int) {
	in := vfRings[(c/2)%len(vfRings)]
	box := vfRBoxes[(c/2)/len(vfRings)]
	if !(len(in) > 1 && in[0] == in[len(in)-1]) {
		vfReach("split-skip")
		vfAssert("skip-unclosed", true)
		return
	}
	s := vfReal("s")
	a, b := box, box
	if c%2 == 0 {
		vfAssume(vfAnd(box.Min[0] < s, s < box.Max[0]))
		a.Max[0], b.Min[0] = s, s
	} else {
		vfAssume(vfAnd(box.Min[1] < s, s < box.Max[1]))
		a.Max[1], b.Min[1] = s, s
	}
	whole := Ring(box, in.Clone())
	ra := Ring(a, in.Clone())
	rb := Ring(b, in.Clone())
	vfReach("split")
	vfAssert("signed-area-additive", vfArea2(ra)+vfArea2(rb) == vfArea2(whole))
}

// ---- symbolic triangle: vertices in the box, closed, wholly-inside unchanged, disjoint nil ----

func vfC08Triangle_N(tier int) int { return 2 + tier }
func vfC08Triangle_Label(c int) string {
	return []string{"one symbolic vertex, base through the box", "one symbolic vertex, base vertex below the box", "two symbolic vertices"}[c]
}

func vfC08Triangle(c int) {
	box := orb.Bound{Min: orb.Point{0, 0}, Max: orb.Point{1, 1}}
	p := []orb.Point{{-0.5, 0.25}, {1.5, 0.5}, {vfReal("cx"), vfReal("cy")}}
	switch c {
	case 1:
		p[0] = orb.Point{0.25, -0.5}
	case 2:
		// (three symbolic vertices: more than 2500 paths / 15 min without finishing; not registered)
		p[1] = orb.Point{vfReal("bx"), vfReal("by")}
	}
	in := orb.Ring{p[0], p[1], p[2], p[0]}
	before := in.Clone()
	out := Ring(box, in.Clone())
	vfReach("triangle")
	for _, v := range out {
		vfAssert("vertex-in-box", vfInBoxC(box, v))
	}
	if len(out) > 0 {
		vfAssert("output-closed", vfAnd(out[0][0] == out[len(out)-1][0], out[0][1] == out[len(out)-1][1]))
		vfAssert("at-most-seven-vertices", len(out) <= 8)
	}
	allIn := vfAnd(vfInBoxC(box, p[0]), vfAnd(vfInBoxC(box, p[1]), vfInBoxC(box, p[2])))
	if vfSymTrue(allIn) {
		vfAssert("wholly-inside-unchanged-length", len(out) == 4)
		for i := range out {
			if i < 4 {
				vfAssert("wholly-inside-unchanged", vfAnd(out[i][0] == before[i][0], out[i][1] == before[i][1]))
			}
		}
	}
	left := vfAnd(p[0][0] < 0, vfAnd(p[1][0] < 0, p[2][0] < 0))
	if vfSymTrue(left) {
		vfAssert("disjoint-gives-nil", len(out) == 0)
	}
	if c < 2 {
		// region: every point strictly inside the box and off the boundaries is in the clipped ring
		// exactly when it is in the triangle (the third vertex is any real point)
		q := orb.Point{vfReal("qx"), vfReal("qy")}
		vfAssume(vfAnd(vfAnd(box.Min[0] < q[0], q[0] < box.Max[0]), vfAnd(box.Min[1] < q[1], q[1] < box.Max[1])))
		tri := orb.Ring{p[0], p[1], p[2]}
		vfAssume(vfNot(vfOnRing(tri, q)))
		want := vfEvenOdd(tri, q)
		if len(out) == 0 {
			vfAssert("triangle-nothing-remains-only-if-nothing-inside", vfNot(want))
			return
		}
		oo := orb.Ring(out[:len(out)-1])
		vfAssume(vfNot(vfOnRing(oo, q)))
		vfAssert("triangle-region-preserved", vfEvenOdd(oo, q) == want)
	}
}

func vfSymTrue(c bool) bool {
	if c {
		return true
	}
	return false
}

// ---- generic clip: nil exactly when nothing remains, never a vertex outside (catalogue shapes) ----

func vfC08Geometry_N(tier int) int     { return 12 }
func vfC08Geometry_Label(c int) string { return "kind#" + strconv.Itoa(c) }

func vfAllInBox(box orb.Bound, g orb.Geometry) bool {
	ok := true
	var walk func(g orb.Geometry)
	pts := func(ps []orb.Point) {
		for _, p := range ps {
			if !box.Contains(p) {
				ok = false
			}
		}
	}
	walk = func(g orb.Geometry) {
		switch g := g.(type) {
		case orb.Point:
			pts([]orb.Point{g})
		case orb.MultiPoint:
			pts(g)
		case orb.LineString:
			pts(g)
		case orb.Ring:
			pts(g)
		case orb.MultiLineString:
			for _, l := range g {
				pts(l)
			}
		case orb.Polygon:
			for _, r := range g {
				pts(r)
			}
		case orb.MultiPolygon:
			for _, p := range g {
				for _, r := range p {
					pts(r)
				}
			}
		case orb.Collection:
			for _, m := range g {
				walk(m)
			}
		case orb.Bound:
			pts([]orb.Point{g.Min, g.Max})
		}
	}
	walk(g)
	return ok
}

func vfC08Geometry(c int) {
	box := vfRBoxes[0]
	far := orb.Point{9, 9}
	var inside, outside orb.Geometry
	switch c {
	case 0:
		inside, outside = orb.Point{1, 1}, far
	case 1:
		inside, outside = orb.MultiPoint{{1, 1}, far}, orb.MultiPoint{far, {8, 8}}
	case 2:
		inside, outside = orb.LineString{{-1, 1}, {3, 1}}, orb.LineString{far, {8, 8}}
	case 3:
		inside, outside = orb.MultiLineString{{{-1, 1}, {3, 1}}, {far, {8, 8}}}, orb.MultiLineString{{far, {8, 8}}}
	case 4:
		inside, outside = vfRings[4].Clone(), vfRings[2].Clone()
	case 5:
		inside, outside = orb.Polygon{vfRings[0].Clone(), vfRings[1].Clone()}, orb.Polygon{vfRings[2].Clone()}
	case 6:
		inside, outside = orb.MultiPolygon{{vfRings[4].Clone()}, {vfRings[2].Clone()}}, orb.MultiPolygon{{vfRings[2].Clone()}}
	case 7:
		inside, outside = orb.Collection{orb.Point{1, 1}, orb.LineString{far, {8, 8}}, vfRings[4].Clone()}, orb.Collection{far, orb.LineString{far, {8, 8}}}
	case 8:
		inside, outside = orb.Bound{Min: orb.Point{1, 1}, Max: orb.Point{5, 5}}, orb.Bound{Min: orb.Point{7, 7}, Max: far}
	case 9:
		// members on both sides of the box: the overall bound meets the box, no member does
		l, r := orb.Ring{{-3, 0}, {-1, 0}, {-1, 2}, {-3, 2}, {-3, 0}}, orb.Ring{{3, 0}, {5, 0}, {5, 2}, {3, 2}, {3, 0}}
		inside, outside = orb.MultiPolygon{{l.Clone()}, {vfRings[4].Clone()}}, orb.MultiPolygon{{l}, {r}}
	case 10:
		inside, outside = orb.MultiLineString{{{-3, 1}, {-1, 1}}, {{1, 1}, {1.5, 1.5}}}, orb.MultiLineString{{{-3, 1}, {-1, 1}}, {{3, 1}, {5, 1}}}
	case 11:
		l, r := orb.Ring{{-3, 0}, {-1, 0}, {-1, 2}, {-3, 2}, {-3, 0}}, orb.Ring{{3, 0}, {5, 0}, {5, 2}, {3, 2}, {3, 0}}
		inside = orb.Collection{orb.MultiPolygon{{l.Clone()}, {r.Clone()}}, orb.Point{1, 1}}
		outside = orb.Collection{orb.MultiPolygon{{l}, {r}}, orb.MultiPoint{{-1, 1}, {3, 1}}, orb.Polygon{r.Clone()}}
	}
	vfReach("geometry")
	gi := Geometry(box, inside)
	vfAssert("something-remains", gi != nil)
	if gi != nil {
		vfAssert("no-vertex-outside", vfAllInBox(box, gi))
	}
	vfAssert("nothing-remains-nil", Geometry(box, outside) == nil)
	if mp, ok := outside.(orb.MultiPolygon); ok {
		vfAssert("multipolygon-nothing-remains-nil", MultiPolygon(box, mp) == nil)
	}
	if c == 11 {
		// a member of which nothing remains does not stay in the collection
		col, _ := gi.(orb.Collection)
		vfAssert("collection-drops-vanished-members", gi != nil && (col == nil || len(col) == 1))
	}
}
