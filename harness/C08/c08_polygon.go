package clip

import (
	"strconv"

	"github.com/paulmach/orb"
)

// ---- polygons and multi-polygons with holes: the region inside the box is preserved ----
// outer ring and holes from a catalogue, the query point symbolic (every real point strictly inside
// the box and off all boundaries), through Polygon, MultiPolygon and the generic Geometry.

var vfPolyBox = orb.Bound{Min: orb.Point{4, 4}, Max: orb.Point{6, 6}}

var vfPolyOuter = orb.Ring{{0, 0}, {10, 0}, {10, 10}, {0, 10}, {0, 0}}

var vfPolyHoles = []struct {
	name string
	h    []orb.Ring
}{
	{"no hole", nil},
	{"hole inside the box", []orb.Ring{{{4.5, 4.5}, {4.5, 5.5}, {5.5, 5.5}, {5.5, 4.5}, {4.5, 4.5}}}},
	{"hole covering the box", []orb.Ring{{{3, 3}, {3, 7}, {7, 7}, {7, 3}, {3, 3}}}},
	{"triangular hole whose bound contains the box", []orb.Ring{{{1, 1}, {1, 9}, {9, 1}, {1, 1}}}},
	{"diamond hole whose bound contains the box", []orb.Ring{{{5, 3.5}, {6.5, 5}, {5, 6.5}, {3.5, 5}, {5, 3.5}}}},
	{"L-shaped hole around a box corner", []orb.Ring{{{3, 3}, {3, 7}, {5, 7}, {5, 5}, {7, 5}, {7, 3}, {3, 3}}}},
	{"hole crossing the right edge", []orb.Ring{{{5, 4.5}, {5, 5.5}, {8, 5.5}, {8, 4.5}, {5, 4.5}}}},
	{"hole outside the box", []orb.Ring{{{1, 1}, {1, 2}, {2, 2}, {2, 1}, {1, 1}}}},
	{"hole sharing the box's left edge", []orb.Ring{{{2, 4}, {2, 6}, {4, 6}, {4, 4}, {2, 4}}}},
	{"two holes: one outside, one triangular across", []orb.Ring{{{1, 1}, {1, 2}, {2, 2}, {2, 1}, {1, 1}}, {{4.5, 3}, {4.5, 7}, {7, 5}, {4.5, 3}}}},
	{"hole with a vertex on the box corner", []orb.Ring{{{4, 4}, {3, 8}, {8, 8}, {4, 4}}}},
}

func vfInPolygon(p orb.Polygon, q orb.Point) bool {
	if len(p) == 0 {
		return false
	}
	in := vfEvenOdd(vfOpenRing(p[0]), q)
	for _, h := range p[1:] {
		in = vfAnd(in, vfNot(vfEvenOdd(vfOpenRing(h), q)))
	}
	return in
}

func vfOpenRing(r orb.Ring) orb.Ring {
	if len(r) > 1 && r[0] == r[len(r)-1] {
		return r[:len(r)-1]
	}
	return r
}

func vfOffPolygon(p orb.Polygon, q orb.Point) bool {
	ok := true
	for _, r := range p {
		ok = vfAnd(ok, vfNot(vfOnRing(vfOpenRing(r), q)))
	}
	return ok
}

func vfC08Polygon_N(tier int) int { return len(vfPolyHoles) * 3 }
func vfC08Polygon_Label(c int) string {
	return vfPolyHoles[c/3].name + " via " + []string{"Polygon", "MultiPolygon", "Geometry"}[c%3] + " #" + strconv.Itoa(c)
}

func vfC08Polygon(c int) {
	box := vfPolyBox
	in := orb.Polygon{vfPolyOuter.Clone()}
	for _, h := range vfPolyHoles[c/3].h {
		in = append(in, h.Clone())
	}
	ref := in.Clone()
	// a second polygon far from the box, for the multi-polygon route
	other := orb.Polygon{{{20, 20}, {30, 20}, {30, 30}, {20, 30}, {20, 20}}}
	var out orb.MultiPolygon
	switch c % 3 {
	case 0:
		if p := Polygon(box, in); p != nil {
			out = orb.MultiPolygon{p}
		}
	case 1:
		out = MultiPolygon(box, orb.MultiPolygon{other, in})
	default:
		switch g := Geometry(box, orb.MultiPolygon{in, other}).(type) {
		case nil:
		case orb.Polygon:
			out = orb.MultiPolygon{g}
		case orb.MultiPolygon:
			out = g
		default:
			vfAssert("geometry-kind", false)
		}
	}
	vfReach("polygon")
	q := orb.Point{vfReal("qx"), vfReal("qy")}
	vfAssume(vfAnd(vfAnd(box.Min[0] < q[0], q[0] < box.Max[0]), vfAnd(box.Min[1] < q[1], q[1] < box.Max[1])))
	vfAssume(vfOffPolygon(ref, q))
	want := vfInPolygon(ref, q)
	got := false
	for _, p := range out {
		for _, r := range p {
			for _, v := range r {
				vfAssert("polygon-vertex-in-box", vfInBoxC(box, v))
			}
		}
		vfAssume(vfOffPolygon(p, q))
		got = vfOr(got, vfInPolygon(p, q))
	}
	if len(out) == 0 {
		vfAssert("polygon-nil-only-if-nothing-inside", vfNot(want))
		return
	}
	vfAssert("polygon-region-preserved", got == want)
}
