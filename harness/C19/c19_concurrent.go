package quadtree

import (
	"strconv"

	"github.com/paulmach/orb"
)

// C19 is reduced to a sufficient condition decided on the real code for all query arguments:
// during a query every store goes to memory allocated by that query (or to the caller's own
// result buffer), so concurrent queries share only memory that none of them writes.

func vfC19N(tier int) int {
	if tier == 0 {
		return vfNOps + 42
	}
	return vfNOps + 42 + 400
}

func vfSameResult(a, b []orb.Pointer) bool {
	if len(a) != len(b) {
		return false
	}
	for i := range a {
		if a[i] != b[i] {
			return false
		}
	}
	return true
}

func vfBox() orb.Bound {
	b := orb.Bound{Min: orb.Point{vfReal("minx"), vfReal("miny")}, Max: orb.Point{vfReal("maxx"), vfReal("maxy")}}
	vfAssume(vfAnd(b.Min[0] <= b.Max[0], b.Min[1] <= b.Max[1]))
	return b
}

func vfC19Find_N(tier int) int     { return vfC19N(tier) }
func vfC19Find_Label(c int) string { return vfHistLabel(vfFindIndex(c)) }
func vfC19Find(c int) {
	m := vfBuild(vfFindIndex(c))
	q := vfQuery()
	before := vfSnapshot(m.q)
	vfWatchBegin()
	r1 := m.q.Find(q)
	vfWatchEnd()
	vfReach("find")
	vfAssert("tree-unchanged-by-find", vfUnchanged(m.q, before))
	vfWatchBegin()
	r2 := m.q.Find(q)
	vfWatchEnd()
	vfAssert("find-deterministic", r1 == r2)
}

func vfC19KNearest_N(tier int) int     { return 3 * vfC19N(tier) }
func vfC19KNearest_Label(c int) string { return vfHistLabel(vfFindIndex(c/3)) + "buf#" + strconv.Itoa(c%3) }
func vfC19KNearest(c int) {
	m := vfBuild(vfFindIndex(c / 3))
	q := vfQuery()
	var buf []orb.Pointer // the caller's own (per-goroutine) buffer: nil, too small, large enough
	switch c % 3 {
	case 1:
		buf = make([]orb.Pointer, 0, 1)
	case 2:
		buf = make([]orb.Pointer, 0, 8)
	}
	before := vfSnapshot(m.q)
	vfAllowWrites(buf)
	vfWatchBegin()
	k1 := m.q.KNearest(buf, q, 2)
	vfWatchEnd()
	vfReach("knearest")
	vfAssert("tree-unchanged-by-knearest", vfUnchanged(m.q, before))
	saved := append([]orb.Pointer{}, k1...)
	vfWatchBegin()
	k2 := m.q.KNearest(nil, q, 2)
	vfWatchEnd()
	vfAssert("knearest-deterministic-and-buffer-independent", vfSameResult(saved, k2))
}

func vfC19InBound_N(tier int) int     { return 2 * vfC19N(tier) }
func vfC19InBound_Label(c int) string { return vfHistLabel(vfFindIndex(c/2)) + "buf#" + strconv.Itoa(c%2) }
func vfC19InBound(c int) {
	m := vfBuild(vfFindIndex(c / 2))
	b := vfBox()
	var buf []orb.Pointer
	if c%2 == 1 {
		buf = make([]orb.Pointer, 0, 2)
	}
	before := vfSnapshot(m.q)
	vfAllowWrites(buf)
	vfWatchBegin()
	i1 := m.q.InBound(buf, b)
	vfWatchEnd()
	vfReach("inbound")
	vfAssert("tree-unchanged-by-inbound", vfUnchanged(m.q, before))
	saved := append([]orb.Pointer{}, i1...)
	vfWatchBegin()
	i2 := m.q.InBound(nil, b)
	vfWatchEnd()
	vfAssert("inbound-deterministic-and-buffer-independent", vfSameResult(saved, i2))
}

// filtered variants
func vfC19Filtered_N(tier int) int     { return 3 * vfC19N(tier) }
func vfC19Filtered_Label(c int) string { return vfHistLabel(vfFindIndex(c/3)) + "query#" + strconv.Itoa(c%3) }

func vfC19Filtered(c int) {
	m := vfBuild(vfFindIndex(c / 3))
	acc := make([]bool, m.n)
	for i := range acc {
		acc[i] = vfBool("accept" + strconv.Itoa(i))
	}
	f := func(p orb.Pointer) bool { return acc[p.(*vfP).id] }
	before := vfSnapshot(m.q)
	small := make([]orb.Pointer, 0, 1)
	vfAllowWrites(small)
	switch c % 3 {
	case 0:
		q := vfQuery()
		vfWatchBegin()
		m.q.Matching(q, f)
	case 1:
		q := vfQuery()
		vfWatchBegin()
		m.q.KNearestMatching(small, q, 3, f)
	case 2:
		b := vfBox()
		vfWatchBegin()
		m.q.InBoundMatching(small, b, f)
	}
	vfWatchEnd()
	vfReach("filtered")
	vfAssert("tree-unchanged-by-filtered-queries", vfUnchanged(m.q, before))
}
