package quadtree

import (
	"strconv"

	"github.com/paulmach/orb"
)

// C19 is reduced to a sufficient condition decided on the real code for all query arguments:
// during a query every store goes to memory allocated by that query (or to the caller's own
// result buffer), so concurrent queries share only memory that none of them writes.

func vfC19N(tier int) int {
	if tier == 0 {
		return vfNOps + len(vfHand) + 42
	}
	return vfNOps + len(vfHand) + 42 + 400
}

func vfSameResult(a, b []orb.Pointer) bool {
	if len(a) != len(b) {
		return false
	}
	for i := range a {
		if a[i] != b[i] {
			return false
		}
	}
	return true
}

func vfBox() orb.Bound {
	b := orb.Bound{Min: orb.Point{vfReal("minx"), vfReal("miny")}, Max: orb.Point{vfReal("maxx"), vfReal("maxy")}}
	vfAssume(vfAnd(b.Min[0] <= b.Max[0], b.Min[1] <= b.Max[1]))
	return b
}

func vfC19Find_N(tier int) int     { return vfC19N(tier) }
func vfC19Find_Label(c int) string { return vfHistLabel(vfFindIndex(c)) }
func vfC19Find(c int) {
	m := vfBuild(vfFindIndex(c))
	q := vfQuery()
	before := vfSnapshot(m.q)
	vfWatchBegin()
	r1 := m.q.Find(q)
	vfWatchEnd()
	vfReach("find")
	vfAssert("tree-unchanged-by-find", vfUnchanged(m.q, before))
	vfWatchBegin()
	r2 := m.q.Find(q)
	vfWatchEnd()
	vfAssert("find-deterministic", r1 == r2)
}

func vfC19KNearest_N(tier int) int     { return 3 * vfC19N(tier) }
func vfC19KNearest_Label(c int) string { return vfHistLabel(vfFindIndex(c/3)) + "buf#" + strconv.Itoa(c%3) }
func vfC19KNearest(c int) {
	m := vfBuild(vfFindIndex(c / 3))
	q := vfQuery()
	var buf []orb.Pointer // the caller's own (per-goroutine) buffer: nil, too small, large enough
	switch c % 3 {
	case 1:
		buf = make([]orb.Pointer, 0, 1)
	case 2:
		buf = make([]orb.Pointer, 0, 8)
	}
	before := vfSnapshot(m.q)
	vfAllowWrites(buf)
	vfWatchBegin()
	k1 := m.q.KNearest(buf, q, 2)
	vfWatchEnd()
	vfReach("knearest")
	vfAssert("tree-unchanged-by-knearest", vfUnchanged(m.q, before))
	saved := append([]orb.Pointer{}, k1...)
	vfWatchBegin()
	k2 := m.q.KNearest(nil, q, 2)
	vfWatchEnd()
	vfAssert("knearest-deterministic-and-buffer-independent", vfSameResult(saved, k2))
}

func vfC19InBound_N(tier int) int     { return 2 * vfC19N(tier) }
func vfC19InBound_Label(c int) string { return vfHistLabel(vfFindIndex(c/2)) + "buf#" + strconv.Itoa(c%2) }
func vfC19InBound(c int) {
	m := vfBuild(vfFindIndex(c / 2))
	b := vfBox()
	var buf []orb.Pointer
	if c%2 == 1 {
		buf = make([]orb.Pointer, 0, 2)
	}
	before := vfSnapshot(m.q)
	vfAllowWrites(buf)
	vfWatchBegin()
	i1 := m.q.InBound(buf, b)
	vfWatchEnd()
	vfReach("inbound")
	vfAssert("tree-unchanged-by-inbound", vfUnchanged(m.q, before))
	saved := append([]orb.Pointer{}, i1...)
	vfWatchBegin()
	i2 := m.q.InBound(nil, b)
	vfWatchEnd()
	vfAssert("inbound-deterministic-and-buffer-independent", vfSameResult(saved, i2))
}

// filtered variants
func vfC19Filtered_N(tier int) int     { return 3 * vfC19N(tier) }
func vfC19Filtered_Label(c int) string { return vfHistLabel(vfFindIndex(c/3)) + "query#" + strconv.Itoa(c%3) }

func vfC19Filtered(c int) {
	m := vfBuild(vfFindIndex(c / 3))
	acc := make([]bool, m.n)
	for i := range acc {
		acc[i] = vfBool("accept" + strconv.Itoa(i))
	}
	f := func(p orb.Pointer) bool { return acc[p.(*vfP).id] }
	before := vfSnapshot(m.q)
	small := make([]orb.Pointer, 0, 1)
	vfAllowWrites(small)
	switch c % 3 {
	case 0:
		q := vfQuery()
		vfWatchBegin()
		m.q.Matching(q, f)
	case 1:
		q := vfQuery()
		vfWatchBegin()
		m.q.KNearestMatching(small, q, 3, f)
	case 2:
		b := vfBox()
		vfWatchBegin()
		m.q.InBoundMatching(small, b, f)
	}
	vfWatchEnd()
	vfReach("filtered")
	vfAssert("tree-unchanged-by-filtered-queries", vfUnchanged(m.q, before))
}

// ---- large results: a result handed to one caller is never touched by a later query ----
// A 9x9 grid tree (81 points); queries with 0, a few, 72 and 81 matches, every ordered pair of
// them, nil and caller buffers, every query kind. The first query's result must be unchanged after
// the second query, and the second query must not write to memory it does not own (sync.Pool is
// modelled as a LIFO: an object obtained from Get is owned until Put).

type vfGridPt struct{ p orb.Point }

func (g *vfGridPt) Point() orb.Point { return g.p }

func vfGridTree() (*Quadtree, []orb.Pointer) {
	q := New(orb.Bound{Min: orb.Point{0, 0}, Max: orb.Point{8, 8}})
	var all []orb.Pointer
	for x := 0; x <= 8; x++ {
		for y := 0; y <= 8; y++ {
			p := &vfGridPt{orb.Point{float64(x), float64(y)}}
			if q.Add(p) == nil {
				all = append(all, p)
			}
		}
	}
	return q, all
}

var vfGridBoxes = []orb.Bound{
	{Min: orb.Point{0, 0}, Max: orb.Point{8, 8}},         // 81
	{Min: orb.Point{0, 0}, Max: orb.Point{7, 8}},         // 72
	{Min: orb.Point{1, 0}, Max: orb.Point{8, 8}},         // 72, other side
	{Min: orb.Point{2.5, 2.5}, Max: orb.Point{4.5, 3.5}}, // 2
	{Min: orb.Point{8.5, 8.5}, Max: orb.Point{9, 9}},     // 0
}

func vfC19Grid_N(tier int) int { return len(vfGridBoxes) * len(vfGridBoxes) * 3 }
func vfC19Grid_Label(c int) string {
	k := c % 3
	c /= 3
	return "box#" + strconv.Itoa(c/len(vfGridBoxes)) + " then box#" + strconv.Itoa(c%len(vfGridBoxes)) + " second=" + []string{"InBound(nil)", "InBoundMatching(nil)", "KNearest(nil, 70)"}[k]
}

func vfC19Grid(c int) {
	k := c % 3
	c /= 3
	q, _ := vfGridTree()
	b1, b2 := vfGridBoxes[c/len(vfGridBoxes)], vfGridBoxes[c%len(vfGridBoxes)]
	before := vfSnapshot(q)
	vfWatchBegin()
	r1 := q.InBound(nil, b1)
	vfWatchEnd()
	vfReach("grid")
	saved := append([]orb.Pointer{}, r1...)
	vfWatchBegin()
	var r2 []orb.Pointer
	switch k {
	case 0:
		r2 = q.InBound(nil, b2)
	case 1:
		r2 = q.InBoundMatching(nil, b2, func(p orb.Pointer) bool { return true })
	default:
		r2 = q.KNearest(nil, b2.Min, 70)
	}
	vfWatchEnd()
	vfAssert("first-result-untouched-by-second-query", vfSameResult(saved, r1))
	vfAssert("tree-unchanged-by-large-queries", vfUnchanged(q, before))
	// the second result is what the same query gives on its own
	q2, _ := vfGridTree()
	var alone []orb.Pointer
	switch k {
	case 0:
		alone = q2.InBound(nil, b2)
	case 1:
		alone = q2.InBoundMatching(nil, b2, func(p orb.Pointer) bool { return true })
	default:
		alone = q2.KNearest(nil, b2.Min, 70)
	}
	vfAssert("second-result-size-as-alone", len(alone) == len(r2))
	for i := range r2 {
		if i < len(alone) {
			vfAssert("second-result-as-alone", r2[i].Point() == alone[i].Point())
		}
	}
}
