package maptile

import "fmt"

// ---- helpers ----

func vfTile(name string, z Zoom) Tile {
	t := Tile{X: vfU32(name + ".x"), Y: vfU32(name + ".y"), Z: z}
	vfAssume(t.Valid())
	return t
}

func vfTileEq(a, b Tile) bool {
	return vfAnd(vfAnd(a.X == b.X, a.Y == b.Y), a.Z == b.Z)
}

// ---- quadkey round trip; children / parent / siblings ----

func vfC13Quadkey_N(tier int) int { return 31 }
func vfC13Quadkey_Label(c int) string { return fmt.Sprintf("z=%d", c) }

// for every valid tile at zoom z: FromQuadkey(Quadkey(t), z) == t and the key uses only 2z bits.
func vfC13Quadkey(c int) {
	z := Zoom(c)
	t := vfTile("t", z)
	k := t.Quadkey()
	vfReach("quadkey")
	vfAssert("quadkey-roundtrip", vfTileEq(FromQuadkey(k, z), t))
	if z < 32 {
		vfAssert("quadkey-range", k>>(2*uint(z)) == 0)
	}
	// distinct tiles have distinct keys
	u := vfTile("u", z)
	vfAssert("quadkey-injective", vfImplies(u.Quadkey() == k, vfTileEq(u, t)))
}

func vfC13Children_N(tier int) int { return 30 }
func vfC13Children_Label(c int) string { return fmt.Sprintf("z=%d", c) }

func vfC13Children(c int) {
	z := Zoom(c)
	t := vfTile("t", z)
	ch := t.Children()
	vfReach("children")
	vfAssert("children-count", len(ch) == 4)
	for i := 0; i < len(ch); i++ {
		vfAssert("child-valid", ch[i].Valid())
		vfAssert("child-zoom", ch[i].Z == z+1)
		vfAssert("child-parent", vfTileEq(ch[i].Parent(), t))
		vfAssert("parent-contains-child", t.Contains(ch[i]))
		for j := i + 1; j < len(ch); j++ {
			vfAssert("children-distinct", vfNot(vfTileEq(ch[i], ch[j])))
		}
	}
	// every tile at z+1 whose parent is t is one of the four
	u := vfTile("u", z+1)
	isChild := vfOr(vfOr(vfTileEq(u, ch[0]), vfTileEq(u, ch[1])), vfOr(vfTileEq(u, ch[2]), vfTileEq(u, ch[3])))
	vfAssert("children-complete", vfImplies(vfTileEq(u.Parent(), t), isChild))
	// siblings of a child are the children of the parent
	sib := ch[2].Siblings()
	vfAssert("siblings-count", len(sib) == 4)
	for i := 0; i < 4; i++ {
		vfAssert("siblings", vfTileEq(sib[i], ch[i]))
	}
}

// ---- Contains <=> ancestor relation ----

// zoom pairs: the quick list first, the remaining pairs after it, so that a case index
// denotes the same pair in both tiers.
func vfPairs(tier int) [][2]int {
	var q, rest [][2]int
	for a := 0; a <= 30; a++ {
		for b := 0; b <= 30; b++ {
			if a <= 2 || b <= 2 || a >= 29 || b >= 29 || a == b || (a+b)%7 == 0 {
				q = append(q, [2]int{a, b})
			} else {
				rest = append(rest, [2]int{a, b})
			}
		}
	}
	if tier == 0 {
		return q
	}
	return append(q, rest...)
}

func vfPair(c int) (Zoom, Zoom) {
	t := vfPairs(1)
	return Zoom(t[c][0]), Zoom(t[c][1])
}

func vfPairLabel(c int) string {
	a, b := vfPair(c)
	return fmt.Sprintf("za=%d zb=%d", a, b)
}

func vfC13Contains_N(tier int) int      { return len(vfPairs(tier)) }
func vfC13Contains_Label(c int) string  { return vfPairLabel(c) }
func vfC13SharedParent_Label(c int) string { return vfPairLabel(c) }
func vfC13Range_Label(c int) string     { return vfPairLabel(c) }

func vfC13Contains(c int) {
	za, zb := vfPair(c)
	a := vfTile("a", za)
	b := vfTile("b", zb)
	got := a.Contains(b)
	vfReach("contains")
	if zb < za {
		vfAssert("contains-shallower-false", vfNot(got))
		return
	}
	d := uint(zb - za)
	want := vfAnd(b.X>>d == a.X, b.Y>>d == a.Y)
	vfAssert("contains-iff-ancestor", got == want)
}

// ---- SharedParent is the deepest common ancestor ----

func vfC13SharedParent_N(tier int) int { return len(vfPairs(tier)) }

func vfC13SharedParent(c int) {
	za, zb := vfPair(c)
	a := vfTile("a", za)
	b := vfTile("b", zb)
	p := a.SharedParent(b)
	vfReach("sharedparent")
	vfAssert("shared-valid", p.Valid())
	vfAssert("shared-contains-a", p.Contains(a))
	vfAssert("shared-contains-b", p.Contains(b))
	zmin := za
	if zb < zmin {
		zmin = zb
	}
	vfAssert("shared-zoom-le", p.Z <= zmin)
	// no deeper common ancestor: if p.Z < zmin, the ancestors of a and b at zoom p.Z+1 differ
	da := uint32(za) - uint32(p.Z) - 1
	db := uint32(zb) - uint32(p.Z) - 1
	deeperSame := vfAnd(a.X>>da == b.X>>db, a.Y>>da == b.Y>>db)
	vfAssert("shared-deepest", vfImplies(p.Z < zmin, vfNot(deeperSame)))
}

// ---- Range(z) is exactly the descendants at zoom z ----

func vfC13Range_N(tier int) int { return len(vfPairs(tier)) }

func vfC13Range(c int) {
	zt, z := vfPair(c)
	t := vfTile("t", zt)
	min, max := t.Range(z)
	vfReach("range")
	vfAssert("range-zoom", vfAnd(min.Z == z, max.Z == z))
	vfAssert("range-valid", vfAnd(min.Valid(), max.Valid()))
	u := vfTile("u", z)
	in := vfAnd(vfAnd(min.X <= u.X, u.X <= max.X), vfAnd(min.Y <= u.Y, u.Y <= max.Y))
	if z >= zt {
		vfAssert("range-iff-descendant", in == t.Contains(u))
	} else {
		vfAssert("range-iff-ancestor", in == u.Contains(t))
	}
}

// ---- ChildrenInZoomRange for depth <= 2 ----

func vfC13ChildrenInZoomRange_N(tier int) int { return 29 * 3 }

func vfC13ChildrenInZoomRange(c int) {
	z := Zoom(c / 3)
	d := Zoom(c % 3)
	t := vfTile("t", z)
	res := ChildrenInZoomRange(t, z, z+d)
	vfReach("czr")
	want := 0
	for k := Zoom(0); k <= d; k++ {
		want += 1 << (2 * k)
	}
	vfAssert("czr-count", len(res) == want)
	u := vfTile("u", z+d)
	found := false
	for i := range res {
		vfAssert("czr-valid", res[i].Valid())
		vfAssert("czr-contained", t.Contains(res[i]))
		found = vfOr(found, vfTileEq(res[i], u))
	}
	vfAssert("czr-complete", vfImplies(t.Contains(u), found))
}

// ---- point -> tile: the x index of At() is valid for every longitude in [-180, 180] ----
// IEEE-754 model (one symbolic double), latitude concrete (its image is transcendental: not claimed).

var vfZoomOrder = []int{0, 1, 2, 5, 10, 17, 24, 30, 3, 4, 6, 7, 8, 9, 11, 12, 13, 14, 15, 16, 18, 19, 20, 21, 22, 23, 25, 26, 27, 28, 29}

func vfZoomN(tier int) int {
	if tier == 0 {
		return 8
	}
	return len(vfZoomOrder)
}

func vfC13AtX_N(tier int) int     { return vfZoomN(tier) }
func vfC13AtX_Label(c int) string { return fmt.Sprintf("z=%d", vfZoomOrder[c]) }

func vfC13AtX(c int) {
	z := Zoom(vfZoomOrder[c])
	lon := vfF64("lon")
	vfAssume(vfAnd(lon >= -180, lon <= 180))
	t := At([2]float64{lon, 0}, z)
	vfReach("at-x")
	vfAssert("at-x-valid", t.X < uint32(1)<<uint32(z))
	// the western edge maps to column 0
	if z <= 30 {
		w := At([2]float64{-180, 0}, z)
		vfAssert("at-x-west-edge", w.X == 0)
	}
}

// latitude clamp: beyond +-85.0511 the row is the first / last row (comparison-only path)
func vfC13AtYClamp_N(tier int) int     { return 31 }
func vfC13AtYClamp_Label(c int) string { return fmt.Sprintf("z=%d", vfZoomOrder[c]) }

func vfC13AtYClamp(c int) {
	z := Zoom(vfZoomOrder[c])
	lat := vfF64("lat")
	vfAssume(vfOr(lat > 85.0511, lat < -85.0511))
	t := At([2]float64{0, lat}, z)
	vfReach("at-y-clamp")
	vfAssert("at-y-valid", t.Y < uint32(1)<<uint32(z))
	vfAssert("at-y-clamp", vfIteI(lat > 0, int(t.Y), int(t.Y)+1) == vfIteI(lat > 0, 0, 1<<uint(z)))
}

// ---- point -> tile: the tile's longitude range contains the point (exact arithmetic) ----
// Real-number model of the float operations: the claim is containment in exact arithmetic for every
// real longitude in [-180, 180] (antimeridian and tile edges included); the rounding of the two
// float operations of Fraction is outside this harness (vfC13AtX covers validity bit-precisely).
// Also: the centre of the tile's longitude range maps back to the same column, and horizontally
// neighbouring tiles share their edge longitude exactly.

func vfC13AtBound_N(tier int) int     { return 31 }
func vfC13AtBound_Label(c int) string { return fmt.Sprintf("z=%d", vfZoomOrder[c]) }

func vfC13AtBound(c int) {
	z := Zoom(vfZoomOrder[c])
	lon := vfReal("lon")
	vfAssume(vfAnd(lon >= -180, lon <= 180))
	t := At([2]float64{lon, 0}, z)
	vfReach("at-bound")
	n := float64(uint64(1) << uint(z))
	lo := float64(t.X)/n*360 - 180
	hi := (float64(t.X)+1)/n*360 - 180
	vfAssert("at-lon-range-contains-point", vfAnd(lo <= lon, lon <= hi))
	b := t.Bound()
	vfAssert("at-bound-contains-lon", vfAnd(b.Min[0] <= lon, lon <= b.Max[0]))
	vfAssert("at-bound-is-column-range", vfAnd(b.Min[0] == lo, b.Max[0] == hi))
	// centre of the column maps back to the column
	ct := At([2]float64{(lo + hi) / 2, 0}, z)
	vfAssert("at-centre-maps-back", ct.X == t.X)
	// the eastern neighbour (if any) starts exactly where this tile ends
	if z > 0 {
		if vfSymTrueI(uint64(t.X)+1 < uint64(1)<<uint(z)) {
			nb := Tile{X: t.X + 1, Y: t.Y, Z: z}.Bound()
			vfAssert("neighbours-share-edge", nb.Min[0] == b.Max[0])
		}
	}
}

func vfSymTrueI(c bool) bool {
	if c {
		return true
	}
	return false
}

// ---- children bounds tile the parent's bound in longitude (exact arithmetic), every column ----
// The column index is any 32-bit value below 2^z (symbolic), the row is concrete (its latitude
// image is transcendental: the latitude side of "tile the bound" is not claimed).

func vfC13ChildBounds_N(tier int) int     { return 30 }
func vfC13ChildBounds_Label(c int) string { return fmt.Sprintf("z=%d", c) }

func vfC13ChildBounds(c int) {
	z := Zoom(c)
	x := vfU32("x")
	vfAssume(x < uint32(1)<<uint32(z))
	t := Tile{X: x, Y: 0, Z: z}
	pb := t.Bound()
	ch := t.Children()
	vfReach("child-bounds")
	minx, maxx := ch[0].Bound().Min[0], ch[0].Bound().Max[0]
	for i := 0; i < 4; i++ {
		b := ch[i].Bound()
		vfAssert("child-bound-inside-parent-lon", vfAnd(pb.Min[0] <= b.Min[0], b.Max[0] <= pb.Max[0]))
		vfAssert("child-bound-half-width", 2*(b.Max[0]-b.Min[0]) == pb.Max[0]-pb.Min[0])
		minx, maxx = vfMinF13(minx, b.Min[0]), vfMaxF13(maxx, b.Max[0])
		// a child either starts at the parent's western edge or at its centre line
		mid := (pb.Min[0] + pb.Max[0]) / 2
		vfAssert("child-bound-aligned", vfOr(b.Min[0] == pb.Min[0], b.Min[0] == mid))
	}
	vfAssert("children-span-parent-lon", vfAnd(minx == pb.Min[0], maxx == pb.Max[0]))
	// the centre's longitude maps back to the column
	ct := t.Center()
	vfAssert("centre-lon-is-mid", 2*ct[0] == pb.Min[0]+pb.Max[0])
	back := At([2]float64{ct[0], 0}, z)
	vfAssert("centre-maps-back-to-column", back.X == x)
}

func vfMinF13(a, b float64) float64 { return vfIteF(a < b, a, b) }
func vfMaxF13(a, b float64) float64 { return vfIteF(a > b, a, b) }

// ---- latitudes at and just beyond the mercator square: concrete values, every zoom ----
// (the latitude image is transcendental: concrete runs through the real sin/log code)

var vfEdgeLats = []float64{85.0511, 85.05110000000001, 85.05112, 85.0511287798, 85.05112877980659, 85.0511287798066, 85.051129, 85.05113, 85.0512, 85.06, 89.9, 90}

func vfC13AtLatEdges_N(tier int) int     { return 31 }
func vfC13AtLatEdges_Label(c int) string { return fmt.Sprintf("z=%d", c) }

func vfC13AtLatEdges(c int) {
	z := Zoom(c)
	vfReach("lat-edges")
	last := uint32(1)<<uint32(z) - 1
	for _, lat := range vfEdgeLats {
		for _, s := range []float64{1, -1} {
			t := At([2]float64{12.5, s * lat}, z)
			vfAssert(fmt.Sprintf("at-valid lat=%v", s*lat), t.Valid())
			if lat > 85.0511 {
				if s > 0 {
					vfAssert(fmt.Sprintf("beyond-the-square-first-row lat=%v", s*lat), t.Y == 0)
				} else {
					vfAssert(fmt.Sprintf("beyond-the-square-last-row lat=%v", s*lat), t.Y == last)
				}
			}
		}
	}
	// just inside: valid, and the bound's latitude range contains the latitude
	for _, lat := range []float64{85.05, 85.0510999, -85.05, -85.0510999, 0, 66.51326044311186, -66.51326044311186} {
		t := At([2]float64{12.5, lat}, z)
		vfAssert(fmt.Sprintf("at-valid-inside lat=%v", lat), t.Valid())
		b := t.Bound()
		vfAssert(fmt.Sprintf("bound-contains-latitude lat=%v", lat), b.Min[1] <= lat+1e-9 && lat-1e-9 <= b.Max[1])
	}
}
