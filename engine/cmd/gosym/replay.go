package main

import (
	"encoding/json"
	"fmt"
	"math/big"
	"os"
	"os/exec"
	"path/filepath"
	"strings"
	"time"

	"verif/engine/interp"
)

// parseSexp parses a tiny s-expression into nested []interface{} / string atoms.
func parseSexp(s string) interface{} {
	toks := tokenize(s)
	pos := 0
	var parse func() interface{}
	parse = func() interface{} {
		if pos >= len(toks) {
			return ""
		}
		t := toks[pos]
		pos++
		if t == "(" {
			var l []interface{}
			for pos < len(toks) && toks[pos] != ")" {
				l = append(l, parse())
			}
			pos++
			return l
		}
		return t
	}
	return parse()
}

func tokenize(s string) []string {
	var toks []string
	cur := ""
	for _, c := range s {
		switch c {
		case '(', ')':
			if cur != "" {
				toks = append(toks, cur)
				cur = ""
			}
			toks = append(toks, string(c))
		case ' ', '\n', '\t', '\r':
			if cur != "" {
				toks = append(toks, cur)
				cur = ""
			}
		default:
			cur += string(c)
		}
	}
	if cur != "" {
		toks = append(toks, cur)
	}
	return toks
}

func evalRat(e interface{}) (*big.Rat, bool) {
	switch x := e.(type) {
	case string:
		x = strings.TrimSuffix(x, "?")
		r, ok := new(big.Rat).SetString(x)
		return r, ok
	case []interface{}:
		if len(x) == 0 {
			return nil, false
		}
		op, _ := x[0].(string)
		var args []*big.Rat
		for _, a := range x[1:] {
			r, ok := evalRat(a)
			if !ok {
				return nil, false
			}
			args = append(args, r)
		}
		switch op {
		case "-":
			if len(args) == 1 {
				return new(big.Rat).Neg(args[0]), true
			}
			if len(args) == 2 {
				return new(big.Rat).Sub(args[0], args[1]), true
			}
		case "/":
			if len(args) == 2 && args[1].Sign() != 0 {
				return new(big.Rat).Quo(args[0], args[1]), true
			}
		case "+":
			r := new(big.Rat)
			for _, a := range args {
				r.Add(r, a)
			}
			return r, true
		case "*":
			r := big.NewRat(1, 1)
			for _, a := range args {
				r.Mul(r, a)
			}
			return r, true
		case "to_real":
			if len(args) == 1 {
				return args[0], true
			}
		}
	}
	return nil, false
}

func parseBV(s string) (*big.Int, bool) {
	s = strings.TrimSpace(s)
	switch {
	case strings.HasPrefix(s, "#x"):
		return new(big.Int).SetString(s[2:], 16)
	case strings.HasPrefix(s, "#b"):
		return new(big.Int).SetString(s[2:], 2)
	case strings.HasPrefix(s, "(_ bv"):
		f := strings.Fields(s[5:])
		if len(f) > 0 {
			return new(big.Int).SetString(f[0], 10)
		}
	}
	return nil, false
}

func modelToWitness(v interp.Violation) map[string]string {
	out := map[string]string{}
	for _, n := range v.Nondets {
		raw, ok := v.Model[n.Name]
		if !ok {
			continue
		}
		switch {
		case n.Sort == "bool":
			out[n.Name] = strings.TrimSpace(raw)
		case strings.HasPrefix(n.Sort, "bv"):
			if bi, ok := parseBV(raw); ok {
				if n.Kind == "float64bits" {
					out[n.Name] = fmt.Sprintf("bits:0x%x", bi)
				} else {
					out[n.Name] = bi.String()
				}
			}
		case n.Sort == "real" || n.Sort == "int":
			if r, ok := evalRat(parseSexp(raw)); ok {
				out[n.Name] = r.RatString()
			} else {
				out[n.Name] = "0" // algebraic number: not representable; replay will show
			}
		}
	}
	return out
}

type replayer struct {
	spec    *Spec
	specDir string
	tmp     string
	bins    map[string]string
	ovPath  string
}

func newReplayer(spec *Spec, specDir string) (*replayer, error) {
	tmp, err := os.MkdirTemp("", "gosym-replay-")
	if err != nil {
		return nil, err
	}
	r := &replayer{spec: spec, specDir: specDir, tmp: tmp, bins: map[string]string{}}
	ov, err := buildOverlay(spec, specDir, true)
	if err != nil {
		return nil, err
	}
	// test dispatcher per package
	for pkg := range spec.Files {
		pdir := filepath.Join(repoDir, pkg)
		name, err := pkgNameOf(pdir)
		if err != nil {
			name = filepath.Base(pkg)
		}
		var sb strings.Builder
		sb.WriteString("package " + name + "\n\nimport (\n\t\"os\"\n\t\"strconv\"\n\t\"testing\"\n)\n\n")
		sb.WriteString("func TestVfReplay(t *testing.T) {\n\tc, _ := strconv.Atoi(os.Getenv(\"VF_CASE\"))\n\tswitch os.Getenv(\"VF_HARNESS\") {\n")
		for _, h := range spec.Harnesses {
			if h.Pkg == pkg {
				sb.WriteString("\tcase \"" + h.Fn + "\":\n\t\t" + h.Fn + "(c)\n")
			}
		}
		sb.WriteString("\tdefault:\n\t\tt.Fatal(\"unknown harness\")\n\t}\n}\n")
		ov[filepath.Join(pdir, "zz_vf_replay_test.go")] = []byte(sb.String())
	}
	repl := map[string]string{}
	i := 0
	for virt, content := range ov {
		real := filepath.Join(tmp, fmt.Sprintf("f%d_%s", i, filepath.Base(virt)))
		i++
		if err := os.WriteFile(real, content, 0o644); err != nil {
			return nil, err
		}
		repl[virt] = real
	}
	b, _ := json.Marshal(map[string]interface{}{"Replace": repl})
	r.ovPath = filepath.Join(tmp, "overlay.json")
	os.WriteFile(r.ovPath, b, 0o644)
	return r, nil
}

func goEnv() []string {
	return append(os.Environ(), "GOFLAGS=-mod=mod", "GOPROXY=off", "GOSUMDB=off", "GOTOOLCHAIN=local")
}

func (r *replayer) bin(pkg string) (string, error) {
	if b, ok := r.bins[pkg]; ok {
		return b, nil
	}
	out := filepath.Join(r.tmp, "bin_"+strings.ReplaceAll(pkg, "/", "_"))
	cmd := exec.Command("go", "test", "-c", "-vet=off", "-overlay", r.ovPath, "-o", out, "./"+pkg)
	cmd.Dir = repoDir
	cmd.Env = goEnv()
	b, err := cmd.CombinedOutput()
	if err != nil {
		return "", fmt.Errorf("go test -c: %v\n%s", err, b)
	}
	r.bins[pkg] = out
	return out, nil
}

// run replays the witness natively; returns true when the native run fails in the same way.
func (r *replayer) run(w *Witness) (bool, string) {
	bin, err := r.bin(w.Pkg)
	if err != nil {
		return false, err.Error()
	}
	wp := filepath.Join(r.tmp, "witness.json")
	b, _ := json.Marshal(w)
	os.WriteFile(wp, b, 0o644)
	cmd := exec.Command(bin, "-test.run", "^TestVfReplay$", "-test.timeout", "120s")
	cmd.Dir = filepath.Join(repoDir, w.Pkg)
	if st, err := os.Stat(cmd.Dir); err != nil || !st.IsDir() {
		cmd.Dir = repoDir
	}
	cmd.Env = append(goEnv(), "VF_WITNESS="+wp, "VF_HARNESS="+w.Harness, fmt.Sprintf("VF_CASE=%d", w.Case))
	done := make(chan struct{})
	var out []byte
	go func() { out, err = cmd.CombinedOutput(); close(done) }()
	select {
	case <-done:
	case <-time.After(150 * time.Second):
		cmd.Process.Kill()
		return false, "native replay timed out"
	}
	s := string(out)
	if err == nil {
		return false, "native run passed: " + lastLines(s, 3)
	}
	if strings.Contains(s, "VFASSUME-FAILED") {
		return false, "native run violated a harness assumption (witness not faithful): " + lastLines(s, 3)
	}
	switch w.Kind {
	case "assert":
		if strings.Contains(s, "VFASSERT:"+w.ID) {
			return true, s
		}
		if strings.Contains(s, "panic:") {
			// a different failure (e.g. a run-time panic before the assert) still is a native failure
			return true, s
		}
		return false, "native failure differs: " + lastLines(s, 5)
	default:
		if strings.Contains(s, "panic:") {
			return true, s
		}
		return false, "no panic natively: " + lastLines(s, 5)
	}
}

func lastLines(s string, n int) string {
	l := strings.Split(strings.TrimSpace(s), "\n")
	if len(l) > n {
		l = l[len(l)-n:]
	}
	return strings.Join(l, " | ")
}

func (r *replayer) close() { os.RemoveAll(r.tmp) }

func cmdReplay(args []string) int {
	if len(args) < 1 {
		fmt.Fprintln(os.Stderr, "usage: gosym replay <witness.json>")
		return 2
	}
	b, err := os.ReadFile(args[0])
	if err != nil {
		fmt.Fprintln(os.Stderr, err)
		return 2
	}
	var w Witness
	if err := json.Unmarshal(b, &w); err != nil {
		fmt.Fprintln(os.Stderr, err)
		return 2
	}
	spec, specDir, err := loadSpec(w.Property)
	if err != nil {
		fmt.Fprintln(os.Stderr, err)
		return 2
	}
	rp, err := newReplayer(spec, specDir)
	if err != nil {
		fmt.Fprintln(os.Stderr, err)
		return 2
	}
	defer rp.close()
	ok, out := rp.run(&w)
	fmt.Println(out)
	if ok {
		fmt.Printf("REPRODUCED property=%s harness=%s case=%d (%s) %s %s\n", w.Property, w.Harness, w.Case, w.Label, w.Kind, w.ID)
		return 1
	}
	fmt.Println("NOT-REPRODUCED")
	return 0
}
