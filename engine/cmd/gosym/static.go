package main

// Part A of C20: every type switch over orb.Geometry either names all nine kinds or its
// fall-through does not reach a panic. Decided structurally on the SSA of the current tree
// (reported as a structural check, not a solver result).

import (
	"fmt"
	"go/types"
	"sort"
	"strings"

	"golang.org/x/tools/go/ssa"

	"verif/engine/interp"
)

var nineKinds = []string{"Point", "MultiPoint", "LineString", "MultiLineString", "Ring", "Polygon", "MultiPolygon", "Collection", "Bound"}

type staticFinding struct {
	Fn      string
	Missing []string
	Pos     string
}

func checkTypeSwitches(prog *interp.Program, pkgPrefix string) (checked int, findings []staticFinding, switchFns []string) {
	orbPkg := prog.SSAPkgs["github.com/paulmach/orb"]
	if orbPkg == nil {
		return 0, nil, nil
	}
	geomT := orbPkg.Type("Geometry").Type()
	var fns []*ssa.Function
	seen := map[*ssa.Function]bool{}
	var addFn func(f *ssa.Function)
	addFn = func(f *ssa.Function) {
		if f == nil || seen[f] {
			return
		}
		seen[f] = true
		fns = append(fns, f)
		for _, a := range f.AnonFuncs {
			addFn(a)
		}
	}
	for path, p := range prog.SSAPkgs {
		if !strings.HasPrefix(path, pkgPrefix) || strings.Contains(path, "zz_vf") {
			continue
		}
		for _, m := range p.Members {
			switch m := m.(type) {
			case *ssa.Function:
				addFn(m)
			case *ssa.Type:
				for _, t := range []types.Type{m.Type(), types.NewPointer(m.Type())} {
					ms := prog.Prog.MethodSets.MethodSet(t)
					for i := 0; i < ms.Len(); i++ {
						addFn(prog.Prog.MethodValue(ms.At(i)))
					}
				}
			}
		}
	}
	for _, f := range fns {
		if f.Blocks == nil || strings.HasPrefix(f.Name(), "vf") || strings.Contains(f.String(), "zz_vf") {
			continue
		}
		// group comma-ok type assertions by operand
		groups := map[ssa.Value][]*ssa.TypeAssert{}
		for _, b := range f.Blocks {
			for _, in := range b.Instrs {
				ta, ok := in.(*ssa.TypeAssert)
				if !ok || !ta.CommaOk || !types.Identical(ta.X.Type(), geomT) {
					continue
				}
				groups[ta.X] = append(groups[ta.X], ta)
			}
		}
		for _, tas := range groups {
			if len(tas) < 3 {
				continue // not a type switch over the kinds (single assertions are ok-checked)
			}
			checked++
			switchFns = append(switchFns, f.String())
			have := map[string]bool{}
			for _, ta := range tas {
				if n, ok := ta.AssertedType.(*types.Named); ok {
					have[n.Obj().Name()] = true
				}
			}
			var missing []string
			for _, k := range nineKinds {
				if !have[k] {
					missing = append(missing, k)
				}
			}
			if len(missing) == 0 {
				continue
			}
			// fall-through of the last assertion: does it reach a panic?
			last := tas[len(tas)-1]
			var start *ssa.BasicBlock
			for _, ref := range *last.Referrers() {
				if ex, ok := ref.(*ssa.Extract); ok && ex.Index == 1 {
					for _, r2 := range *ex.Referrers() {
						if iff, ok := r2.(*ssa.If); ok {
							start = iff.Block().Succs[1]
						}
					}
				}
			}
			if start == nil {
				continue
			}
			reach := map[*ssa.BasicBlock]bool{}
			stack := []*ssa.BasicBlock{start}
			panics := false
			for len(stack) > 0 {
				b := stack[len(stack)-1]
				stack = stack[:len(stack)-1]
				if reach[b] {
					continue
				}
				reach[b] = true
				if len(b.Instrs) > 0 {
					if _, ok := b.Instrs[len(b.Instrs)-1].(*ssa.Panic); ok {
						panics = true
					}
				}
				stack = append(stack, b.Succs...)
			}
			if panics {
				sort.Strings(missing)
				findings = append(findings, staticFinding{Fn: f.String(), Missing: missing, Pos: prog.Prog.Fset.Position(last.Pos()).String()})
			}
		}
	}
	sort.Slice(findings, func(i, j int) bool { return findings[i].Fn < findings[j].Fn })
	sort.Strings(switchFns)
	return checked, findings, switchFns
}

func (s staticFinding) String() string {
	return fmt.Sprintf("type switch over orb.Geometry in %s lacks %v and falls through to a panic (%s)", s.Fn, s.Missing, s.Pos)
}
