// gosym: bounded symbolic execution of Go SSA with an SMT solver as the deciding step.
//
//	gosym run <property> [--tier quick|thorough] [--only harness[,harness]] [--case n] [-v]
//	gosym replay <witness.json>
package main

import (
	"encoding/json"
	"flag"
	"fmt"
	"os"
	"path/filepath"
	"regexp"
	"sort"
	"strings"
	"sync"
	"time"

	"verif/engine/interp"
)

type HarnessSpec struct {
	Fn        string `json:"fn"`
	Pkg       string `json:"pkg"` // directory relative to /repo ("." for root)
	FloatFP   bool   `json:"float_fp,omitempty"`
	TimeoutMs int    `json:"timeout_ms,omitempty"`
	MaxSteps  int64  `json:"max_steps,omitempty"`
	MaxPaths  int    `json:"max_paths,omitempty"`
	MapOrders int    `json:"map_orders,omitempty"`
	Solver    string `json:"solver,omitempty"`
	Tier      string `json:"tier,omitempty"` // "thorough" = only in thorough tier
	Clause    string `json:"clause,omitempty"`
	ExactReal bool   `json:"exact_real,omitempty"`
	FeasMs    int    `json:"feas_timeout_ms,omitempty"`
	NoUF      bool   `json:"no_uf,omitempty"`
	LatticeFirst bool `json:"lattice_first,omitempty"`
}

type Spec struct {
	Property    string            `json:"property"`
	Files       map[string][]string `json:"files"` // pkg dir -> harness file names (relative to spec dir)
	Harnesses   []HarnessSpec     `json:"harnesses"`
	Bounds      map[string]string `json:"bounds"`
	Assumptions []string          `json:"assumptions"`
	Outside     []string          `json:"outside"`
	Clauses     map[string][]string `json:"clauses,omitempty"`
	Merge       []string          `json:"merge,omitempty"` // pure functions summarised by ITE merging
	UFStubs     []string          `json:"uf_stubs,omitempty"`
	StaticTypeSwitch string        `json:"static_typeswitch,omitempty"` // package prefix for the structural type-switch check
	StaticLoad  []string          `json:"static_load,omitempty"`       // extra package patterns to load for it
	StaticExclude []string        `json:"static_exclude,omitempty"`
}

type KnownFinding struct {
	Status      string `json:"status"` // known | fixed
	Property    string `json:"property"`
	ID          string `json:"id"`
	Harness     string `json:"harness"`
	Site        string `json:"site"` // assertion id or panic class
	When        string `json:"when"` // regexp on case label
	Description string `json:"description"`
	Commit      string `json:"commit,omitempty"`
}

type Witness struct {
	Property string            `json:"property"`
	Pkg      string            `json:"pkg"`
	Harness  string            `json:"harness"`
	Case     int               `json:"case"`
	Label    string            `json:"label"`
	Kind     string            `json:"kind"`
	ID       string            `json:"id"`
	Msg      string            `json:"msg"`
	Values   map[string]string `json:"values"`
	RawModel map[string]string `json:"raw_model,omitempty"`
	Prefix   []int64           `json:"prefix,omitempty"`
}

const repoDir = "/repo"

var verifDir = "/verif"

func main() {
	if d := os.Getenv("VERIF_DIR"); d != "" {
		verifDir = d
	} else if wd, err := os.Getwd(); err == nil {
		if _, err := os.Stat(filepath.Join(wd, "harness")); err == nil {
			verifDir = wd
		}
	}
	if len(os.Args) < 2 {
		fmt.Fprintln(os.Stderr, "usage: gosym run <property> | replay <witness>")
		os.Exit(2)
	}
	switch os.Args[1] {
	case "run":
		os.Exit(cmdRun(os.Args[2:]))
	case "replay":
		os.Exit(cmdReplay(os.Args[2:]))
	default:
		fmt.Fprintln(os.Stderr, "unknown command", os.Args[1])
		os.Exit(2)
	}
}

func pkgNameOf(dir string) (string, error) {
	ents, err := os.ReadDir(dir)
	if err != nil {
		return "", err
	}
	re := regexp.MustCompile(`(?m)^package\s+(\w+)`)
	for _, e := range ents {
		n := e.Name()
		if strings.HasSuffix(n, ".go") && !strings.HasSuffix(n, "_test.go") {
			b, err := os.ReadFile(filepath.Join(dir, n))
			if err != nil {
				continue
			}
			if m := re.FindSubmatch(b); m != nil {
				return string(m[1]), nil
			}
		}
	}
	return "", fmt.Errorf("no package clause in %s", dir)
}

func loadSpec(prop string) (*Spec, string, error) {
	dir := filepath.Join(verifDir, "harness", prop)
	b, err := os.ReadFile(filepath.Join(dir, "spec.json"))
	if err != nil {
		return nil, "", err
	}
	var s Spec
	if err := json.Unmarshal(b, &s); err != nil {
		return nil, "", fmt.Errorf("spec.json: %v", err)
	}
	return &s, dir, nil
}

// buildOverlay returns virtual path -> content for symbolic (decl) or native mode.
func buildOverlay(spec *Spec, specDir string, native bool) (map[string][]byte, error) {
	ov := map[string][]byte{}
	tmpl := "zz_vf_decl.go.tmpl"
	if native {
		tmpl = "zz_vf_rt.go.tmpl"
	}
	rt, err := os.ReadFile(filepath.Join(verifDir, "harness", "rt", tmpl))
	if err != nil {
		return nil, err
	}
	for pkg, files := range spec.Files {
		pdir := filepath.Join(repoDir, pkg)
		name, err := pkgNameOf(pdir)
		if err != nil {
			// a virtual package that exists only in the overlay
			name = filepath.Base(pkg)
		}
		ov[filepath.Join(pdir, "zz_vf_rt.go")] = []byte(strings.Replace(string(rt), "PKGNAME", name, 1))
		for _, f := range files {
			b, err := os.ReadFile(filepath.Join(specDir, f))
			if err != nil {
				return nil, err
			}
			txt := string(b)
			q, imp := "orb.", "\"github.com/paulmach/orb\""
			if name == "orb" {
				q, imp = "", ""
			}
			txt = strings.ReplaceAll(txt, "package PKGNAME", "package "+name)
			txt = strings.ReplaceAll(txt, "ORBIMPORT", imp)
			txt = strings.ReplaceAll(txt, "ORBQ", q)
			ov[filepath.Join(pdir, "zz_vf_"+filepath.Base(f))] = []byte(txt)
		}
	}
	return ov, nil
}

func pkgPath(dir string) string {
	if dir == "." || dir == "" {
		return "github.com/paulmach/orb"
	}
	return "github.com/paulmach/orb/" + dir
}

type job struct {
	h     *HarnessSpec
	c     int
	label string
	order int
}

type jobResult struct {
	job    job
	out    *interp.Outcome
	dur    time.Duration
	capped bool
}

func cmdRun(args []string) int {
	fs := flag.NewFlagSet("run", flag.ExitOnError)
	tier := fs.String("tier", "quick", "quick|thorough")
	only := fs.String("only", "", "comma-separated harness names")
	onlyCase := fs.Int("case", -1, "single case index")
	verbose := fs.Bool("v", false, "verbose")
	workers := fs.Int("j", 16, "workers")
	noEvidence := fs.Bool("no-evidence", false, "do not write the evidence file")
	trace := fs.Bool("trace", false, "dump solver scripts to stderr")
	budget := fs.Int("budget", 0, "wall-clock budget in seconds after which unexplored paths are reported as inconclusive (default: quick 1500, thorough 10800)")
	var prop string
	if len(args) > 0 && !strings.HasPrefix(args[0], "-") {
		prop = args[0]
		args = args[1:]
	}
	fs.Parse(args)
	if prop == "" && fs.NArg() > 0 {
		prop = fs.Arg(0)
	}
	if t := os.Getenv("VERIF_TIER"); t != "" && *tier == "" {
		*tier = t
	}
	seed := 0
	fmt.Sscan(os.Getenv("VERIF_SEED"), &seed)
	t0 := time.Now()
	spec, specDir, err := loadSpec(prop)
	if err != nil {
		fmt.Fprintln(os.Stderr, "gosym:", err)
		return 2
	}
	ov, err := buildOverlay(spec, specDir, false)
	if err != nil {
		fmt.Fprintln(os.Stderr, "gosym:", err)
		return 2
	}
	var patterns []string
	for pkg := range spec.Files {
		patterns = append(patterns, "./"+pkg)
	}
	sort.Strings(patterns)
	patterns = append(patterns, spec.StaticLoad...)
	prog, err := interp.Load(repoDir, ov, patterns...)
	if err != nil {
		fmt.Fprintln(os.Stderr, "gosym: load:", err)
		return 2
	}
	loadDur := time.Since(t0)
	tierN := 0
	if *tier == "thorough" {
		tierN = 1
	}
	onlySet := map[string]bool{}
	for _, n := range strings.Split(*only, ",") {
		if n != "" {
			onlySet[n] = true
		}
	}
	mergeSet := map[string]bool{}
	for _, m := range spec.Merge {
		mergeSet[m] = true
	}
	ufSet := map[string]bool{}
	for _, m := range spec.UFStubs {
		ufSet[m] = true
	}
	baseCfg := func(h *HarnessSpec) *interp.Config {
		to := h.TimeoutMs
		if to == 0 {
			to = 20000
		}
		return &interp.Config{InitPkgs: interp.DefaultInitPkgs, TrackPkgs: []string{"github.com/paulmach/orb", "github.com/paulmach/protoscan"},
			MaxSteps: h.MaxSteps, FloatFP: h.FloatFP, TimeoutMs: to, SolverBin: h.Solver, MaxPaths: h.MaxPaths, Trace: *trace, MergeFuncs: mergeSet, ExactReal: h.ExactReal, FeasMs: h.FeasMs, UFStubs: ufFor(h, ufSet), LatticeFirst: h.LatticeFirst}
	}
	// enumerate jobs
	var jobs []job
	machinery := []string{}
	{
		w, err := interp.NewWorker(prog, baseCfg(&HarnessSpec{}))
		if err != nil {
			fmt.Fprintln(os.Stderr, "gosym: solver:", err)
			return 2
		}
		for i := range spec.Harnesses {
			h := &spec.Harnesses[i]
			if len(onlySet) > 0 && !onlySet[h.Fn] {
				continue
			}
			if h.Tier == "thorough" && tierN == 0 {
				continue
			}
			fn := prog.Func(pkgPath(h.Pkg), h.Fn)
			if fn == nil {
				machinery = append(machinery, "harness function not found: "+h.Fn)
				continue
			}
			n := 1
			if nf := prog.Func(pkgPath(h.Pkg), h.Fn+"_N"); nf != nil {
				r, err := w.CallConcrete(nf, tierN)
				if err != nil {
					machinery = append(machinery, fmt.Sprintf("%s_N: %v", h.Fn, err))
					continue
				}
				n = r.(int)
			}
			lf := prog.Func(pkgPath(h.Pkg), h.Fn+"_Label")
			orders := h.MapOrders
			if orders == 0 {
				orders = 1
			}
			for c := 0; c < n; c++ {
				if *onlyCase >= 0 && c != *onlyCase {
					continue
				}
				label := fmt.Sprintf("case%d", c)
				if lf != nil {
					if r, err := w.CallConcrete(lf, c); err == nil {
						label = fmt.Sprint(r)
					}
				}
				for o := 0; o < orders; o++ {
					l := label
					if orders > 1 {
						l = fmt.Sprintf("%s/maporder%d", label, o)
					}
					jobs = append(jobs, job{h: h, c: c, label: l, order: o})
				}
			}
		}
		w.Close()
	}
	if *verbose {
		fmt.Fprintf(os.Stderr, "gosym: loaded in %.1fs, %d jobs\n", loadDur.Seconds(), len(jobs))
	}
	// run jobs: a shared LIFO of (job, decision prefix) tasks, so that the paths of one large
	// case are explored by all workers
	results := make([]jobResult, len(jobs))
	type task struct {
		job    int
		prefix []int64
	}
	var (
		mu     sync.Mutex
		cond   = sync.NewCond(&mu)
		stack  []task
		active int
		start  = make([]time.Time, len(jobs))
	)
	for i := len(jobs) - 1; i >= 0; i-- {
		stack = append(stack, task{job: i})
		results[i] = jobResult{job: jobs[i], out: &interp.Outcome{Stats: interp.NewPathStats()}}
	}
	nw := *workers
	budgetS := *budget
	if budgetS == 0 {
		budgetS = 1500
		if *tier == "thorough" {
			budgetS = 10800
		}
	}
	deadline := time.Now().Add(time.Duration(budgetS) * time.Second)
	var wg sync.WaitGroup
	doneCh := make(chan struct{})
	if *verbose {
		go func() {
			tk := time.NewTicker(15 * time.Second)
			defer tk.Stop()
			for {
				select {
				case <-doneCh:
					return
				case <-tk.C:
					mu.Lock()
					paths, q := 0, int64(0)
					busy := ""
					for i := range results {
						paths += results[i].out.Paths
						q += results[i].out.Solver.Queries
						if !start[i].IsZero() && results[i].out.Paths == 0 && busy == "" {
							busy = results[i].job.h.Fn + " " + results[i].job.label
						}
					}
					fmt.Fprintf(os.Stderr, "  ... %.0fs: %d paths done, %d queries, %d tasks queued, %d running; first unfinished: %s\n", time.Since(t0).Seconds(), paths, q, len(stack), active, busy)
					mu.Unlock()
				}
			}
		}()
	}
	for k := 0; k < nw; k++ {
		wg.Add(1)
		go func() {
			defer wg.Done()
			var w *interp.Worker
			var wkey string
			defer func() {
				if w != nil {
					w.Close()
				}
			}()
			for {
				mu.Lock()
				for len(stack) == 0 && active > 0 {
					cond.Wait()
				}
				if len(stack) == 0 {
					mu.Unlock()
					cond.Broadcast()
					return
				}
				t := stack[len(stack)-1]
				stack = stack[:len(stack)-1]
				active++
				if start[t.job].IsZero() {
					start[t.job] = time.Now()
				}
				r := &results[t.job]
				skip := false
				maxp := r.job.h.MaxPaths
				if maxp == 0 {
					maxp = 400000
				}
				if r.out.Paths >= maxp {
					skip = true
					if !r.capped {
						r.capped = true
						r.out.Inconclusive = append(r.out.Inconclusive, fmt.Sprintf("path limit %d reached", maxp))
					}
				}
				if !skip && time.Now().After(deadline) {
					skip = true
					if !r.capped {
						r.capped = true
						r.out.Inconclusive = append(r.out.Inconclusive, fmt.Sprintf("wall-clock budget of %d s exhausted after %d paths: the remaining paths were not explored", budgetS, r.out.Paths))
					}
				}
				mu.Unlock()
				if !skip {
					j := jobs[t.job]
					cfg := baseCfg(j.h)
					cfg.MapOrder = j.order
					key := fmt.Sprintf("%s/%d", cfg.SolverBin, cfg.TimeoutMs)
					if w == nil || wkey != key {
						if w != nil {
							w.Close()
						}
						var err error
						w, err = interp.NewWorker(prog, cfg)
						if err != nil {
							mu.Lock()
							machinery = append(machinery, "solver start: "+err.Error())
							active--
							mu.Unlock()
							cond.Broadcast()
							continue
						}
						wkey = key
					}
					w.Cfg = cfg
					fn := prog.Func(pkgPath(j.h.Pkg), j.h.Fn)
					pr := w.RunOne(fn, []interface{}{j.c}, t.prefix)
					mu.Lock()
					r.out.Paths++
					r.out.Stats.Merge(pr.Stats)
					r.out.Solver.Add(&pr.Solver)
					r.out.Violations = append(r.out.Violations, pr.Violations...)
					r.out.Inconclusive = append(r.out.Inconclusive, pr.Inconclusive...)
					for _, p := range pr.Pending {
						stack = append(stack, task{job: t.job, prefix: p})
					}
					r.dur = time.Since(start[t.job])
					mu.Unlock()
				}
				mu.Lock()
				active--
				mu.Unlock()
				cond.Broadcast()
			}
		}()
	}
	wg.Wait()
	close(doneCh)
	if *verbose {
		for _, r := range results {
			fmt.Fprintf(os.Stderr, "  %s[%d] %s: paths=%d viol=%d inconcl=%d queries=%d %.2fs\n", r.job.h.Fn, r.job.c, r.job.label, r.out.Paths, len(r.out.Violations), len(r.out.Inconclusive), r.out.Solver.Queries, r.dur.Seconds())
		}
	}

	// aggregate
	total := interp.NewPathStats()
	var solver interp.SolverStats
	type vrec struct {
		w Witness
		v interp.Violation
	}
	var viols []vrec
	inconcl := map[string]int{}
	perHarness := map[string]map[string]int{}
	nontrivial := 0
	for _, r := range results {
		if r.out == nil {
			continue
		}
		total.Merge(r.out.Stats)
		nontrivial += r.out.Stats.Nontrivial
		solver.Add(&r.out.Solver)
		ph := perHarness[r.job.h.Fn]
		if ph == nil {
			ph = map[string]int{}
			perHarness[r.job.h.Fn] = ph
		}
		ph["cases"]++
		ph["paths"] += r.out.Paths
		ph["obligations"] += r.out.Stats.Obligations
		ph["discharged"] += r.out.Stats.Discharged
		ph["queries"] += int(r.out.Solver.Queries)
		for _, m := range r.out.Inconclusive {
			key := r.job.h.Fn + ": " + firstLine(m)
			inconcl[key]++
			if *verbose && inconcl[key] == 1 {
				fmt.Fprintln(os.Stderr, "INCONCLUSIVE", r.job.h.Fn, r.job.label, m)
			}
		}
		for id, n := range r.out.Stats.UnknownIDs {
			inconcl[r.job.h.Fn+": solver returned unknown on obligation "+id] += n
		}
		seen := map[string]bool{}
		for _, v := range r.out.Violations {
			k := v.Kind + "/" + v.ID
			if seen[k] {
				continue
			}
			seen[k] = true
			w := Witness{Property: spec.Property, Pkg: r.job.h.Pkg, Harness: r.job.h.Fn, Case: r.job.c, Label: r.job.label,
				Kind: v.Kind, ID: v.ID, Msg: v.Msg, RawModel: v.Model, Prefix: v.Prefix, Values: modelToWitness(v)}
			viols = append(viols, vrec{w, v})
		}
	}
	// vacuity: every harness must reach at least one vfReach marker or obligation
	for _, h := range spec.Harnesses {
		ph := perHarness[h.Fn]
		if ph == nil {
			continue
		}
		if ph["obligations"] == 0 && len(viols) == 0 {
			machinery = append(machinery, "vacuity: harness "+h.Fn+" reached no obligation")
		}
	}

	// known findings
	known := loadKnown()
	exit := 0
	nViol := 0
	staticNote := ""
	if spec.StaticTypeSwitch != "" {
		// Structural cross-check: every function that switches over the kinds of orb.Geometry must be
		// executed by the totality harness (which feeds it every kind and nil), or be excluded with a reason.
		n, incomplete, fns := checkTypeSwitches(prog, spec.StaticTypeSwitch)
		if n == 0 {
			machinery = append(machinery, "static type-switch scan found no type switches (vacuous)")
		}
		var notEntered, excluded []string
		entered := 0
		for _, f := range fns {
			ex := false
			for _, e := range spec.StaticExclude {
				if strings.Contains(f, e) {
					ex = true
				}
			}
			switch {
			case total.FuncsEntered[f]:
				entered++
			case ex:
				excluded = append(excluded, f)
			default:
				notEntered = append(notEntered, f)
			}
		}
		staticNote = fmt.Sprintf("structural scan: %d type switches over orb.Geometry in %d functions; %d executed by the totality harness with every kind and nil; excluded (outside claim): %v; switches that do not name all nine kinds and have a panicking default (decided dynamically by the totality harness, listed for information): %d", n, len(fns), entered, excluded, len(incomplete))
		if len(onlySet) == 0 && *onlyCase < 0 {
			for _, f := range notEntered {
				machinery = append(machinery, "coverage gap: function with a type switch over orb.Geometry is not exercised by the totality harness: "+f)
			}
		}
	}
	knownHit := map[string]bool{}
	replays := 0
	var replayNotes []string
	sort.SliceStable(viols, func(i, j int) bool { return viols[i].w.Harness+viols[i].w.Label < viols[j].w.Harness+viols[j].w.Label })
	var newViols []vrec
	for _, vr := range viols {
		if kf := matchKnown(known, &vr.w); kf != nil {
			if !knownHit[kf.ID] {
				knownHit[kf.ID] = true
			}
			continue
		}
		newViols = append(newViols, vr)
	}
	// native replay of new violations (cap), grouped to share the compiled test binary
	os.MkdirAll(filepath.Join(verifDir, "evidence", "replays"), 0o755)
	maxReplay := 6
	var rp *replayer
	for _, vr := range newViols {
		if vr.v.Kind == "monitor" {
			// monitor violations (write-set, allocation) have no native panic to observe: report directly
			path := writeWitness(&vr.w)
			fmt.Printf("VIOLATION property=%s replay=%s\n", spec.Property, path)
			fmt.Printf("  %s case=%s %s: %s\n", vr.w.Harness, vr.w.Label, vr.w.ID, vr.w.Msg)
			nViol++
			exit = 1
			continue
		}
		if replays >= maxReplay {
			replayNotes = append(replayNotes, fmt.Sprintf("not replayed (cap): %s %s %s", vr.w.Harness, vr.w.Label, vr.w.ID))
			continue
		}
		if rp == nil {
			rp, err = newReplayer(spec, specDir)
			if err != nil {
				machinery = append(machinery, "replay build failed: "+err.Error())
				break
			}
		}
		replays++
		ok, outp := rp.run(&vr.w)
		if ok {
			path := writeWitness(&vr.w)
			fmt.Printf("VIOLATION property=%s replay=%s\n", spec.Property, path)
			fmt.Printf("  %s case=%s %s: %s\n", vr.w.Harness, vr.w.Label, vr.w.ID, vr.w.Msg)
			nViol++
			exit = 1
		} else {
			machinery = append(machinery, fmt.Sprintf("ENCODING-MISMATCH: counterexample did not reproduce natively: %s %s %s (%s)", vr.w.Harness, vr.w.Label, vr.w.ID, firstLine(outp)))
			if *verbose {
				fmt.Fprintln(os.Stderr, "replay output:", outp, "\nwitness:", vr.w.Values, "\nstack:", vr.v.Stack)
			}
		}
	}
	if rp != nil {
		rp.close()
	}
	for _, kf := range known {
		if kf.Status == "known" && kf.Property == spec.Property && knownHit[kf.ID] {
			fmt.Printf("KNOWN-FINDING: property=%s %s: %s\n", spec.Property, kf.ID, kf.Description)
		}
	}
	for k, n := range inconcl {
		machinery = append(machinery, fmt.Sprintf("%s (x%d)", k, n))
	}
	sort.Strings(machinery)
	if len(machinery) > 0 && exit == 0 {
		exit = 2
	}
	for _, m := range machinery {
		fmt.Fprintln(os.Stderr, "MACHINERY:", m)
	}
	wall := time.Since(t0).Seconds()
	if !*noEvidence {
		if staticNote != "" {
			replayNotes = append(replayNotes, staticNote)
		}
		writeEvidence(spec, *tier, seed, total, nontrivial, solver, perHarness, len(jobs), nViol, len(knownHit), replays, machinery, replayNotes, wall, results)
	}
	fmt.Printf("%s %s: jobs=%d paths=%d obligations=%d discharged=%d queries=%d (sat %d unsat %d unknown %d) solver=%.1fs wall=%.1fs violations=%d known=%d exit=%d\n",
		spec.Property, *tier, len(jobs), total.Paths, total.Obligations, total.Discharged, solver.Queries, solver.Sat, solver.Unsat, solver.Unknown,
		float64(solver.Nanos)/1e9, wall, nViol, len(knownHit), exit)
	return exit
}

func ufFor(h *HarnessSpec, set map[string]bool) map[string]bool {
	if h.NoUF {
		return nil
	}
	return set
}

func firstLine(s string) string {
	if i := strings.IndexByte(s, '\n'); i >= 0 {
		return s[:i]
	}
	return s
}

func loadKnown() []KnownFinding {
	b, err := os.ReadFile(filepath.Join(verifDir, "known_findings.json"))
	if err != nil {
		return nil
	}
	var f struct {
		Findings []KnownFinding `json:"findings"`
	}
	if err := json.Unmarshal(b, &f); err != nil {
		fmt.Fprintln(os.Stderr, "known_findings.json:", err)
		return nil
	}
	return f.Findings
}

func matchKnown(known []KnownFinding, w *Witness) *KnownFinding {
	for i := range known {
		k := &known[i]
		if k.Status != "known" || k.Property != w.Property || k.Harness != w.Harness || k.Site != w.ID {
			continue
		}
		if k.When != "" {
			if ok, _ := regexp.MatchString(k.When, w.Label); !ok {
				continue
			}
		}
		return k
	}
	return nil
}

func writeWitness(w *Witness) string {
	b, _ := json.MarshalIndent(w, "", " ")
	h := uint32(2166136261)
	for _, c := range b {
		h ^= uint32(c)
		h *= 16777619
	}
	p := filepath.Join(verifDir, "evidence", "replays", fmt.Sprintf("%s-%s-%08x.json", w.Property, w.Harness, h))
	os.WriteFile(p, b, 0o644)
	return p
}

func writeEvidence(spec *Spec, tier string, seed int, st *interp.PathStats, nontrivial int, sv interp.SolverStats, perH map[string]map[string]int, jobs, nViol, nKnown, replays int, machinery, notes []string, wall float64, results []jobResult) {
	funcs := make([]string, 0, len(st.FuncsEntered))
	for f := range st.FuncsEntered {
		if strings.Contains(f, "vf") && strings.Contains(f, ".vf") {
			continue
		}
		funcs = append(funcs, f)
	}
	sort.Strings(funcs)
	stubs := make([]string, 0)
	for s, n := range st.StubsHit {
		stubs = append(stubs, fmt.Sprintf("%s x%d", s, n))
	}
	sort.Strings(stubs)
	assum := append([]string{}, spec.Assumptions...)
	for a := range st.Assumptions {
		assum = append(assum, a)
	}
	sort.Strings(assum)
	samples := []interface{}{}
	for i, r := range results {
		if r.out == nil || len(samples) >= 8 {
			continue
		}
		if i%(len(results)/8+1) != 0 {
			continue
		}
		samples = append(samples, map[string]interface{}{
			"harness": r.job.h.Fn, "case": r.job.c, "label": r.job.label, "paths": r.out.Paths,
			"obligations": r.out.Stats.Obligations, "discharged": r.out.Stats.Discharged,
			"solver_queries": r.out.Solver.Queries, "example_paths": r.out.Stats.Samples,
		})
	}
	if len(samples) == 0 {
		samples = append(samples, "no jobs")
	}
	reach := map[string]int{}
	for k, v := range st.Reaches {
		reach[k] = v
	}
	ev := map[string]interface{}{
		"property_id": spec.Property,
		"tier":        tier,
		"seed":        seed,
		"level":       "model_checking",
		"wall_s":      wall,
		"violations":  nViol,
		"assumptions": assum,
		"coverage": map[string]interface{}{
			"evaluations":                   int(sv.Queries),
			"distinct_nontrivial":           nontrivial,
			"rule":                          "bounded symbolic execution of the real Go SSA: each enumerated case (shape) is explored over all feasible paths; evaluations = SMT queries discharged; distinct_nontrivial = explored paths that contain at least one symbolic branch decision or symbolic obligation (each path has a distinct decision vector)",
			"samples":                       samples,
			"states":                        st.Paths,
			"transitions":                   st.SymBranches,
			"traces_validated_against_impl": replays,
			"obligations":                   st.Obligations,
			"discharged":                    st.Discharged,
			"exhaustive":                    len(machinery) == 0,
			"functions_encoded":             funcs,
			"stubs":                         stubs,
			"bounds":                        spec.Bounds,
			"outside_claim":                 spec.Outside,
			"clauses":                       spec.Clauses,
			"cases":                         jobs,
			"paths":                         st.Paths,
			"queries":                       map[string]int64{"total": sv.Queries, "sat": sv.Sat, "unsat": sv.Unsat, "unknown": sv.Unknown, "solver_restarts": sv.Restarts},
			"solver_s":                      float64(sv.Nanos) / 1e9,
			"solver":                        "z3 4.8.12 (z3 -in), SMT-LIB2, incremental push/pop",
			"unknown_feasibility":           st.UnknownFeas,
			"unknown_obligations":           st.UnknownObl,
			"unwinding_assertions_failed":   st.UnwindHits,
			"reach_witnesses":               reach,
			"per_harness":                   perH,
			"known_findings_matched":        nKnown,
			"machinery_problems":            machinery,
			"notes":                         notes,
		},
	}
	b, _ := json.MarshalIndent(ev, "", " ")
	os.MkdirAll(filepath.Join(verifDir, "evidence"), 0o755)
	os.WriteFile(filepath.Join(verifDir, "evidence", spec.Property+".json"), b, 0o644)
}
