package interp

// Path exploration by decision-prefix replay.

import (
	"fmt"
	"go/types"
	"os"
	"sort"
	"strconv"
	"strings"
	"time"
)

type NondetVar struct {
	Name string `json:"name"`
	Sort string `json:"sort"` // "bv8".."bv64", "bool", "real", "fp64", "int"
	Term string `json:"-"`
	Kind string `json:"kind"` // Go kind: uint8, uint32, float64, ...
}

type Violation struct {
	Kind    string            `json:"kind"` // "assert", "panic", "monitor"
	ID      string            `json:"id"`   // assertion id or panic message class
	Msg     string            `json:"msg"`
	Pos     string            `json:"pos,omitempty"`
	Model   map[string]string `json:"model,omitempty"` // nondet name -> SMT value text
	Nondets []NondetVar       `json:"nondets,omitempty"`
	Prefix  []int64           `json:"prefix,omitempty"`
	Stack   string            `json:"stack,omitempty"`
}

type PathStats struct {
	Paths        int
	Nontrivial   int
	SymBranches  int
	Obligations  int
	Discharged   int
	UnknownObl   int
	UnknownFeas  int
	Reaches      map[string]int
	UnwindHits   int
	Unsupported  []string
	FuncsEntered map[string]bool
	StubsHit     map[string]int
	Assumptions  map[string]bool
	Samples      []string
	UnknownIDs   map[string]int
}

func NewPathStats() *PathStats { return newPathStats() }

func newPathStats() *PathStats {
	return &PathStats{UnknownIDs: map[string]int{}, Reaches: map[string]int{}, FuncsEntered: map[string]bool{}, StubsHit: map[string]int{}, Assumptions: map[string]bool{}}
}

func (p *PathStats) Merge(o *PathStats) {
	p.Paths += o.Paths
	p.Nontrivial += o.Nontrivial
	p.SymBranches += o.SymBranches
	p.Obligations += o.Obligations
	p.Discharged += o.Discharged
	p.UnknownObl += o.UnknownObl
	p.UnknownFeas += o.UnknownFeas
	p.UnwindHits += o.UnwindHits
	for k, v := range o.Reaches {
		p.Reaches[k] += v
	}
	for k, v := range o.UnknownIDs {
		p.UnknownIDs[k] += v
	}
	for k := range o.FuncsEntered {
		p.FuncsEntered[k] = true
	}
	for k, v := range o.StubsHit {
		p.StubsHit[k] += v
	}
	for k := range o.Assumptions {
		p.Assumptions[k] = true
	}
	p.Unsupported = append(p.Unsupported, o.Unsupported...)
	if len(p.Samples) < 12 {
		p.Samples = append(p.Samples, o.Samples...)
		if len(p.Samples) > 12 {
			p.Samples = p.Samples[:12]
		}
	}
}

// pathCtx is the per-path symbolic state.
type pathCtx struct {
	solver   *Solver
	prefix   []int64
	pos      int
	taken    []int64
	pending  [][]int64
	nondets  []NondetVar
	names    map[string]int
	viol     []Violation
	stats    *PathStats
	nterm    int
	steps    int64
	maxSteps int64
	deadline time.Time // wall-clock limit of this path (zero: none)
	dead     bool      // path became infeasible through assume
	concrete bool      // concrete (witness) mode: nondets come from witness
	witness  map[string]string
	floatFP  bool // model for int->float conversions of symbolic ints
	// memory monitor
	watching     bool
	fresh        map[*value]bool
	allowed      map[*value]bool
	pools        map[*value][]value // sync.Pool model: LIFO of Put objects per pool
	allocLimit   int64
	mapOrder     int
	nsym         int // number of symbolic branches on this path
	freshMaps    map[interface{}]bool
	ufs          map[string]bool
	epsDeclared  bool
	maxSym       int
	merge        *mergeCtx
	defCache     map[string]string
	decided      map[string]bool
	feasMs       int
	latticeFirst bool
	sqrtCache    map[string]string
	intOrig      map[string]intOrigin
	numTokens    []numToken
}

// control-flow panics used by the engine
type pathEnd struct{ reason string }   // path is over (infeasible / step limit)
type unsupported struct{ what string } // encoder cannot handle something
type goPanic struct{ msg string }      // Go run-time panic (index out of range, nil deref...)

func (g goPanic) Error() string { return "runtime error: " + g.msg }

func (pc *pathCtx) fresh_(prefix string) string {
	pc.nterm++
	return fmt.Sprintf("%s!%d", prefix, pc.nterm)
}

// def names a term in the solver if it is long.
func (pc *pathCtx) def(sort, expr string) string {
	if len(expr) < 48 {
		return expr
	}
	if pc.defCache == nil {
		pc.defCache = map[string]string{}
	}
	if n, ok := pc.defCache[expr]; ok && os.Getenv("GOSYM_NOHASHCONS") == "" {
		return n
	}
	n := pc.fresh_("t")
	pc.defCache[expr] = n
	pc.solver.Send("(define-fun " + n + " () " + sort + " " + expr + ")")
	return n
}

// defAtom always returns an atomic name for the term.
func (pc *pathCtx) defAtom(sort, expr string) string {
	if !strings.ContainsAny(expr, " (") {
		return expr
	}
	n := pc.fresh_("t")
	pc.solver.Send("(define-fun " + n + " () " + sort + " " + expr + ")")
	return n
}

func (pc *pathCtx) declare(name, sort string) {
	pc.solver.Send("(declare-const " + name + " " + sort + ")")
}

func (pc *pathCtx) assert(f string) {
	if pc.merge != nil {
		if c := pc.merge.allConds(); len(c) > 0 {
			f = "(=> " + conj(c) + " " + f + ")"
		}
	}
	pc.solver.Send("(assert " + f + ")")
}

// mergeCtx is the state of one sub-path of a merged (summarised) pure call.
type mergeCtx struct {
	prefix  []int64
	pos     int
	taken   []int64
	pending [][]int64
	conds   []string
	outer   *mergeCtx
}

func (m *mergeCtx) allConds() []string {
	var c []string
	if m.outer != nil {
		c = m.outer.allConds()
	}
	return append(c, m.conds...)
}

func conj(cs []string) string {
	if len(cs) == 0 {
		return "true"
	}
	if len(cs) == 1 {
		return cs[0]
	}
	return "(and " + strings.Join(cs, " ") + ")"
}

func (pc *pathCtx) branchMerged(cond string) bool {
	m := pc.merge
	if m.pos < len(m.prefix) {
		d := m.prefix[m.pos]
		m.pos++
		m.taken = append(m.taken, d)
		if d == 1 {
			m.conds = append(m.conds, cond)
			return true
		}
		m.conds = append(m.conds, "(not "+cond+")")
		return false
	}
	m.pos++
	ctx := m.allConds()
	r1 := pc.solver.CheckWith(conj(append(append([]string{}, ctx...), cond)))
	if r1 == "unsat" {
		m.taken = append(m.taken, 0)
		m.conds = append(m.conds, "(not "+cond+")")
		return false
	}
	r0 := pc.solver.CheckWith(conj(append(append([]string{}, ctx...), "(not "+cond+")")))
	if r1 == "unknown" || r0 == "unknown" {
		pc.stats.UnknownFeas++
	}
	if r0 != "unsat" {
		m.pending = append(m.pending, append(append([]int64{}, m.taken...), 0))
	}
	m.taken = append(m.taken, 1)
	m.conds = append(m.conds, cond)
	return true
}

// branch decides a symbolic condition. Returns the side taken.
func (pc *pathCtx) branch(cond string) bool {
	if !pc.deadline.IsZero() && time.Now().After(pc.deadline) {
		panic(pathEnd{"path-time-limit"})
	}
	if cond == "true" {
		return true
	}
	if cond == "false" {
		return false
	}
	if pc.merge != nil {
		return pc.branchMerged(cond)
	}
	// a condition already decided on this path (syntactically identical term) needs no query
	if pc.decided == nil {
		pc.decided = map[string]bool{}
	}
	if d, ok := pc.decided[cond]; ok {
		return d
	}
	if strings.HasPrefix(cond, "(not ") {
		if d, ok := pc.decided[cond[5:len(cond)-1]]; ok {
			return !d
		}
	}
	r := pc.branchDecide(cond)
	pc.decided[cond] = r
	return r
}

func (pc *pathCtx) branchDecide(cond string) bool {
	if pc.feasMs > 0 {
		full := pc.solver.TimeoutMs
		pc.solver.SetTimeout(pc.feasMs)
		defer pc.solver.SetTimeout(full)
	}
	pc.nsym++
	pc.stats.SymBranches++
	if pc.pos < len(pc.prefix) {
		d := pc.prefix[pc.pos]
		pc.pos++
		pc.taken = append(pc.taken, d)
		if d == 1 {
			pc.assert(cond)
			return true
		}
		pc.assert("(not " + cond + ")")
		return false
	}
	pc.pos++
	r1 := pc.solver.CheckWith(cond)
	if r1 == "unsat" {
		pc.taken = append(pc.taken, 0)
		pc.assert("(not " + cond + ")")
		return false
	}
	r0 := pc.solver.CheckWith("(not " + cond + ")")
	if r1 == "unknown" || r0 == "unknown" {
		pc.stats.UnknownFeas++
	}
	if r0 != "unsat" {
		alt := append(append([]int64{}, pc.taken...), 0)
		pc.pending = append(pc.pending, alt)
	}
	pc.taken = append(pc.taken, 1)
	pc.assert(cond)
	return true
}

// concretize picks a concrete value for integer term t (as SMT term of sort given by
// mk(c) producing the equality formula) among candidates lo..hi inclusive.
func (pc *pathCtx) concretize(eq func(c int64) string, lo, hi int64) int64 {
	if pc.merge != nil {
		panic(mergeAbort{"concretize inside summary"})
	}
	if hi-lo > 4096 {
		panic(unsupported{fmt.Sprintf("concretize range too large: %d..%d", lo, hi)})
	}
	pc.nsym++
	if pc.pos < len(pc.prefix) {
		d := pc.prefix[pc.pos]
		pc.pos++
		pc.taken = append(pc.taken, d)
		pc.assert(eq(d))
		return d
	}
	pc.pos++
	first := true
	var chosen int64
	for c := lo; c <= hi; c++ {
		r := pc.solver.CheckWith(eq(c))
		if r == "unsat" {
			continue
		}
		if r == "unknown" {
			pc.stats.UnknownFeas++
		}
		if first {
			first = false
			chosen = c
		} else {
			alt := append(append([]int64{}, pc.taken...), c)
			pc.pending = append(pc.pending, alt)
		}
	}
	if first {
		// no feasible value: path infeasible
		panic(pathEnd{"infeasible-concretize"})
	}
	pc.taken = append(pc.taken, chosen)
	pc.assert(eq(chosen))
	return chosen
}

// concretizeByModel picks concrete values for an integer term by asking the solver for models
// (at most max distinct values; more is unsupported). parse turns a model value into int64.
func (pc *pathCtx) concretizeByModel(term string, eq func(c int64) string, max int) int64 {
	if pc.merge != nil {
		panic(mergeAbort{"concretize inside summary"})
	}
	pc.nsym++
	if pc.pos < len(pc.prefix) {
		d := pc.prefix[pc.pos]
		pc.pos++
		pc.taken = append(pc.taken, d)
		pc.assert(eq(d))
		return d
	}
	pc.pos++
	var found []int64
	pc.solver.Push()
	for len(found) <= max {
		r := pc.solver.Check()
		if r != "sat" {
			if r == "unknown" {
				pc.solver.Pop()
				panic(unsupported{"concretizeByModel: solver unknown"})
			}
			break
		}
		vals, err := pc.solver.GetValues([]string{term})
		if err != nil {
			pc.solver.Pop()
			panic(unsupported{"concretizeByModel: " + err.Error()})
		}
		v, ok := parseModelInt(vals[term])
		if !ok {
			pc.solver.Pop()
			panic(unsupported{"concretizeByModel: cannot parse " + vals[term]})
		}
		found = append(found, v)
		pc.solver.Send("(assert (not " + eq(v) + "))")
	}
	pc.solver.Pop()
	if len(found) == 0 {
		panic(pathEnd{"infeasible-concretize"})
	}
	if len(found) > max {
		panic(unsupported{fmt.Sprintf("concretizeByModel: more than %d values", max)})
	}
	for _, c := range found[1:] {
		pc.pending = append(pc.pending, append(append([]int64{}, pc.taken...), c))
	}
	pc.taken = append(pc.taken, found[0])
	pc.assert(eq(found[0]))
	return found[0]
}

// tryConcretizeByModel is concretizeByModel that reports failure (too many values) instead of
// aborting; the decision log records -1 for "not concretized".
func (pc *pathCtx) tryConcretizeByModel(term string, eq func(c int64) string, max int) (v int64, ok bool) {
	if pc.pos < len(pc.prefix) {
		if pc.prefix[pc.pos] == -1 {
			pc.pos++
			pc.taken = append(pc.taken, -1)
			return 0, false
		}
		return pc.concretizeByModel(term, eq, max), true
	}
	defer func() {
		if r := recover(); r != nil {
			if u, isU := r.(unsupported); isU && strings.HasPrefix(u.what, "concretizeByModel: more than") {
				pc.taken = append(pc.taken, -1)
				v, ok = 0, false
				return
			}
			panic(r)
		}
	}()
	return pc.concretizeByModel(term, eq, max), true
}

func parseModelInt(s string) (int64, bool) {
	s = strings.TrimSpace(s)
	switch {
	case strings.HasPrefix(s, "#x"):
		u, err := strconv.ParseUint(s[2:], 16, 64)
		return int64(u), err == nil
	case strings.HasPrefix(s, "#b"):
		u, err := strconv.ParseUint(s[2:], 2, 64)
		return int64(u), err == nil
	case strings.HasPrefix(s, "(- "):
		v, err := strconv.ParseInt(strings.TrimSuffix(strings.TrimSpace(s[3:]), ")"), 10, 64)
		return -v, err == nil
	}
	v, err := strconv.ParseInt(s, 10, 64)
	return v, err == nil
}

func (pc *pathCtx) model() map[string]string {
	terms := make([]string, 0, len(pc.nondets))
	for _, n := range pc.nondets {
		terms = append(terms, n.Term)
	}
	vals, err := pc.solver.GetValues(terms)
	m := make(map[string]string)
	if err != nil {
		m["!error"] = err.Error()
	}
	for _, n := range pc.nondets {
		if v, ok := vals[n.Term]; ok {
			m[n.Name] = v
		}
	}
	return m
}

// violationAt records a violation; the current solver context extended with `extra`
// (may be "") must be satisfiable. Returns false if it is not (no violation).
func (pc *pathCtx) tryViolation(kind, id, msg, pos, extra string) string {
	if pc.concrete {
		pc.viol = append(pc.viol, Violation{Kind: kind, ID: id, Msg: msg, Pos: pos})
		return "sat"
	}
	pc.solver.Push()
	defer pc.solver.Pop()
	if extra != "" {
		pc.solver.Send("(assert " + extra + ")")
	}
	if os.Getenv("GOSYM_SLOW") != "" {
		t0 := time.Now()
		defer func() {
			if d := time.Since(t0); d > 3*time.Second {
				fmt.Fprintf(os.Stderr, "SLOW obligation %s %s: %.1fs\n", kind, id, d.Seconds())
			}
		}()
	}
	reals := []string{}
	for _, n := range pc.nondets {
		if n.Sort == "real" {
			reals = append(reals, n.Term)
		}
	}
	if pc.latticeFirst && len(reals) > 0 {
		// NRA obligations: the query restricted to a dyadic lattice first (empirically it is decided
		// fast and primes the solver for the unrestricted query that follows; a sat answer gives an
		// exactly representable model)
		pc.solver.Push()
		for i, t := range reals {
			k := fmt.Sprintf("lat!%d", i)
			pc.solver.Send("(declare-const " + k + " Int)")
			pc.solver.Send(fmt.Sprintf("(assert (= (* 64.0 %s) (to_real %s)))", t, k))
			pc.solver.Send(fmt.Sprintf("(assert (and (<= (- 65536) %s) (<= %s 65536)))", k, k))
		}
		r0 := pc.solver.Check()
		if r0 == "sat" {
			v := Violation{Kind: kind, ID: id, Msg: msg, Pos: pos, Model: pc.model(), Nondets: append([]NondetVar{}, pc.nondets...), Prefix: append([]int64{}, pc.taken...)}
			pc.viol = append(pc.viol, v)
			pc.solver.Pop()
			return "sat"
		}
		pc.solver.Pop()
	}
	// plain check; for a sat answer with real inputs, try to find a small dyadic model
	// (exactly representable, so that the native float run follows the same path)
	r := pc.solver.Check()
	if r == "sat" && len(reals) > 0 {
		plain := Violation{Kind: kind, ID: id, Msg: msg, Pos: pos, Model: pc.model(), Nondets: append([]NondetVar{}, pc.nondets...), Prefix: append([]int64{}, pc.taken...)}
		full := pc.solver.TimeoutMs
		pc.solver.SetTimeout(3000)
		pc.solver.Push()
		for i, t := range reals {
			k := fmt.Sprintf("lat!%d", i)
			pc.solver.Send("(declare-const " + k + " Int)")
			pc.solver.Send(fmt.Sprintf("(assert (= (* 64.0 %s) (to_real %s)))", t, k))
			pc.solver.Send(fmt.Sprintf("(assert (and (<= (- 65536) %s) (<= %s 65536)))", k, k))
		}
		r2 := pc.solver.Check()
		if r2 == "sat" {
			plain.Model = pc.model()
		}
		pc.solver.Pop()
		pc.solver.SetTimeout(full)
		pc.viol = append(pc.viol, plain)
		return "sat"
	}
	if r == "sat" {
		v := Violation{Kind: kind, ID: id, Msg: msg, Pos: pos, Model: pc.model(), Nondets: append([]NondetVar{}, pc.nondets...), Prefix: append([]int64{}, pc.taken...)}
		pc.viol = append(pc.viol, v)
	}
	if r == "unknown" {
		// retry ladder, step 1: the complete nlsat procedure on the same context (pure NRA only)
		r1 := pc.solver.CheckTactic(fmt.Sprintf("(try-for qfnra-nlsat %d)", 2*pc.solver.TimeoutMs))
		pc.stats.StubsHit["retry:nlsat:"+r1]++
		if r1 == "unsat" {
			return "unsat"
		}
		if r1 == "sat" {
			v := Violation{Kind: kind, ID: id, Msg: msg, Pos: pos, Model: pc.model(), Nondets: append([]NondetVar{}, pc.nondets...), Prefix: append([]int64{}, pc.taken...)}
			pc.viol = append(pc.viol, v)
			return "sat"
		}
		// step 2: the same context in the other solvers
		for _, bin := range []string{"z3-new", "cvc5"} {
			if bin == pc.solver.Bin {
				continue
			}
			r2, model := pc.solver.RetryElsewhere(bin, pc.nondets)
			pc.stats.StubsHit["retry:"+bin+":"+r2]++
			if r2 == "unsat" {
				return "unsat"
			}
			if r2 == "sat" {
				v := Violation{Kind: kind, ID: id, Msg: msg, Pos: pos, Model: model, Nondets: append([]NondetVar{}, pc.nondets...), Prefix: append([]int64{}, pc.taken...)}
				pc.viol = append(pc.viol, v)
				return "sat"
			}
		}
		pc.stats.UnknownIDs[id]++
	}
	return r
}

func (pc *pathCtx) sortedReaches() []string {
	var k []string
	for s := range pc.stats.Reaches {
		k = append(k, s)
	}
	sort.Strings(k)
	return k
}

func basicKindName(k types.BasicKind) string {
	return types.Typ[k].Name()
}

func isTrivialTerm(t string) bool { return !strings.HasPrefix(t, "(") }
