package interp

// Symbolic-aware wrappers around the concrete operators of the interpreter.

import (
	"fmt"
	"go/token"
	"go/types"
	"math"
	"math/big"
	"sort"

	"golang.org/x/tools/go/ssa"
)

// symString is a string of concrete length whose bytes may be symbolic.
type symString struct{ b []value }

func (s symString) concrete() (string, bool) {
	buf := make([]byte, len(s.b))
	for i, c := range s.b {
		u, ok := c.(uint8)
		if !ok {
			return "", false
		}
		buf[i] = u
	}
	return string(buf), true
}

func toSymString(v value) symString {
	switch s := v.(type) {
	case symString:
		return s
	case string:
		b := make([]value, len(s))
		for i := 0; i < len(s); i++ {
			b[i] = s[i]
		}
		return symString{b}
	}
	panic(fmt.Sprintf("toSymString: %T", v))
}

func normString(s symString) value {
	if c, ok := s.concrete(); ok {
		return c
	}
	return s
}

func binopS(fr *frame, op token.Token, t types.Type, x, y value) value {
	_, xs := x.(sym)
	_, ys := y.(sym)
	if xs || ys {
		return symBinop(fr, op, t, x, y)
	}
	_, xss := x.(symString)
	_, yss := y.(symString)
	if xss || yss {
		return symStringBinop(fr, op, toSymString(x), toSymString(y))
	}
	switch op {
	case token.QUO, token.REM:
		switch yv := y.(type) {
		case float64:
			// exact-real harnesses: a concrete quotient that is not exactly representable stays exact
			if fr.i.cfg.ExactReal && op == token.QUO {
				xv := x.(float64)
				if yv != 0 && !math.IsInf(xv, 0) && !math.IsNaN(xv) && !math.IsInf(yv, 0) && !math.IsNaN(yv) {
					q := new(big.Rat).Quo(new(big.Rat).SetFloat64(xv), new(big.Rat).SetFloat64(yv))
					if f, exact := q.Float64(); !exact {
						_ = f
						return sym{k: skReal, bk: types.Float64, t: ratLit(q)}
					}
				}
			}
		case float32, complex64, complex128:
		default:
			if asU64(y) == 0 {
				panic(goPanic{"integer divide by zero"})
			}
		}
	case token.EQL, token.NEQ:
		// comparisons of aggregates / interfaces that may contain symbolic leaves
		if containsSym(x) || containsSym(y) {
			eq := symEquals(fr, t, x, y)
			if op == token.NEQ {
				if b, ok := eq.(bool); ok {
					return !b
				}
				return symUnop(fr, token.NOT, eq.(sym))
			}
			return eq
		}
	}
	return binop(op, t, x, y)
}

func containsSym(v value) bool {
	switch v := v.(type) {
	case sym, symString:
		return true
	case structure:
		for _, e := range v {
			if containsSym(e) {
				return true
			}
		}
	case array:
		for _, e := range v {
			if containsSym(e) {
				return true
			}
		}
	case iface:
		return containsSym(v.v)
	}
	return false
}

// symEquals: Go == on values that may contain symbolic leaves. Returns bool or sym(Bool).
func symEquals(fr *frame, t types.Type, x, y value) value {
	pc := fr.i.pc
	var conj []string
	var walk func(t types.Type, x, y value) bool
	walk = func(t types.Type, x, y value) bool {
		switch xv := x.(type) {
		case structure:
			yv := y.(structure)
			st := t.Underlying().(*types.Struct)
			for i := range xv {
				if !walk(st.Field(i).Type(), xv[i], yv[i]) {
					return false
				}
			}
			return true
		case array:
			yv := y.(array)
			et := t.Underlying().(*types.Array).Elem()
			for i := range xv {
				if !walk(et, xv[i], yv[i]) {
					return false
				}
			}
			return true
		case iface:
			yv := y.(iface)
			if !sameType(xv.t, yv.t) {
				return false
			}
			if xv.t == nil {
				return true
			}
			return walk(xv.t, xv.v, yv.v)
		}
		_, xs := x.(sym)
		_, ys := y.(sym)
		_, xss := x.(symString)
		_, yss := y.(symString)
		if xs || ys || xss || yss {
			r := binopS(fr, token.EQL, t, x, y)
			if b, ok := r.(bool); ok {
				return b
			}
			conj = append(conj, r.(sym).t)
			return true
		}
		return equals(t, x, y)
	}
	if !walk(t, x, y) {
		return false
	}
	if len(conj) == 0 {
		return true
	}
	if len(conj) == 1 {
		return mkBool(pc, conj[0])
	}
	s := "(and"
	for _, c := range conj {
		s += " " + c
	}
	return mkBool(pc, s+")")
}

func symStringBinop(fr *frame, op token.Token, x, y symString) value {
	pc := fr.i.pc
	switch op {
	case token.ADD:
		b := make([]value, 0, len(x.b)+len(y.b))
		b = append(b, x.b...)
		b = append(b, y.b...)
		return normString(symString{b})
	case token.EQL, token.NEQ:
		var r value
		if len(x.b) != len(y.b) {
			r = false
		} else {
			var conj []string
			eq := true
			for i := range x.b {
				e := binopS(fr, token.EQL, types.Typ[types.Uint8], x.b[i], y.b[i])
				if b, ok := e.(bool); ok {
					if !b {
						eq = false
						break
					}
				} else {
					conj = append(conj, e.(sym).t)
				}
			}
			switch {
			case !eq:
				r = false
			case len(conj) == 0:
				r = true
			case len(conj) == 1:
				r = mkBool(pc, conj[0])
			default:
				s := "(and"
				for _, c := range conj {
					s += " " + c
				}
				r = mkBool(pc, s+")")
			}
		}
		if op == token.NEQ {
			if b, ok := r.(bool); ok {
				return !b
			}
			return symUnop(fr, token.NOT, r.(sym))
		}
		return r
	}
	panic(unsupported{fmt.Sprintf("symbolic string op %s", op)})
}

func convS(fr *frame, tDst, tSrc types.Type, x value) value {
	switch xv := x.(type) {
	case sym:
		dk := basicKindOfType(tDst)
		if dk == types.Invalid {
			panic(unsupported{fmt.Sprintf("conversion of symbolic scalar to %s", tDst)})
		}
		if dk == types.String {
			panic(unsupported{"symbolic integer to string"})
		}
		return symConv(fr, dk, xv)
	case symString:
		switch ud := tDst.Underlying().(type) {
		case *types.Slice:
			if b, ok := ud.Elem().Underlying().(*types.Basic); ok && b.Kind() == types.Byte {
				res := make([]value, len(xv.b))
				copy(res, xv.b)
				fr.i.pc.markFreshSlice(res)
				return res
			}
		case *types.Basic:
			if ud.Kind() == types.String {
				return xv
			}
		}
		panic(unsupported{fmt.Sprintf("symString conversion to %s", tDst)})
	case []value:
		// []byte / []rune -> string with symbolic elements (runes are assumed ASCII)
		if b, ok := tDst.Underlying().(*types.Basic); ok && b.Kind() == types.String {
			hasSym := false
			for _, e := range xv {
				if isSym(e) {
					hasSym = true
					break
				}
			}
			if hasSym {
				res := make([]value, len(xv))
				for i, e := range xv {
					switch ev := e.(type) {
					case sym:
						if ev.bk != types.Uint8 {
							fr.i.pc.stats.Assumptions["symbolic text bytes are ASCII (< 0x80)"] = true
							res[i] = symConv(fr, types.Uint8, ev)
						} else {
							res[i] = ev
						}
					case int32:
						res[i] = uint8(ev)
					default:
						res[i] = e
					}
				}
				return symString{res}
			}
		}
	}
	r := conv(tDst, tSrc, x)
	if s, ok := r.([]value); ok {
		fr.i.pc.markFreshSlice(s)
	}
	return r
}

func sliceS(fr *frame, x, lo, hi, max value) value {
	var Len, Cap int64
	switch xv := x.(type) {
	case string:
		Len = int64(len(xv))
		Cap = Len
	case symString:
		Len = int64(len(xv.b))
		Cap = Len
	case []value:
		Len = int64(len(xv))
		Cap = int64(cap(xv))
	case *value:
		if xv == nil {
			panic(goPanic{"invalid memory address or nil pointer dereference"})
		}
		a := (*xv).(array)
		Len = int64(len(a))
		Cap = int64(cap(a))
	}
	// Go order of checks: max <= cap, hi <= max (or cap/len for strings), lo <= hi
	m := Cap
	if max != nil {
		m = boundValue(fr, max, 0, Cap, "::")
	}
	h := Len
	if hi != nil {
		limit := m
		if _, isStr := x.(string); isStr {
			limit = Len
		}
		if _, isStr := x.(symString); isStr {
			limit = Len
		}
		h = boundValue(fr, hi, 0, limit, ":")
	}
	l := int64(0)
	if lo != nil {
		l = boundValue(fr, lo, 0, h, "")
	}
	if h > m {
		panic(goPanic{fmt.Sprintf("slice bounds out of range [:%d:%d]", h, m)})
	}
	switch xv := x.(type) {
	case string:
		return xv[l:h]
	case symString:
		return normString(symString{xv.b[l:h]})
	case []value:
		return xv[l:h:m]
	case *value:
		a := (*xv).(array)
		return []value(a)[l:h:m]
	}
	panic(fmt.Sprintf("slice: unexpected X type: %T", x))
}

func makeSliceS(fr *frame, instr *ssa.MakeSlice) value {
	pc := fr.i.pc
	tElt := instr.Type().Underlying().(*types.Slice).Elem()
	esz := fr.i.sizes.Sizeof(tElt)
	ln, cp := fr.get(instr.Len), fr.get(instr.Cap)
	resolve := func(v value, what string) int64 {
		if s, ok := v.(sym); ok {
			// run-time check: negative or huge -> panic
			limit := int64(1) << 40
			if pc.allocLimit > 0 {
				limit = pc.allocLimit/maxI64(esz, 1) + 1
			}
			if !pc.branch(inRange(s, 0, limit)) {
				// either a makeslice panic (negative) or an allocation above the limit
				if s.k == skBV && bkSigned(s.bk) && pc.branch("(bvslt "+s.t+" "+bvLit(0, bkWidth(s.bk))+")") {
					panic(goPanic{"makeslice: " + what + " out of range"})
				}
				pc.tryViolation("monitor", "alloc-limit", fmt.Sprintf("make([]%s) with symbolic %s can exceed the allocation limit of %d bytes", tElt, what, pc.allocLimit), fr.i.prog.Fset.Position(instr.Pos()).String(), "")
				panic(pathEnd{"alloc-limit"})
			}
			if what == "cap" {
				// a capacity that the path condition determines (up to a few values) is used as is
				if v, ok := pc.tryConcretizeByModel(s.t, func(c int64) string { return eqConst(s, c) }, 8); ok {
					return v
				}
				// otherwise the capacity is only an allocation hint: within the limit its value is not observable
				pc.stats.Assumptions["make() with an undetermined symbolic capacity: the capacity value (within the allocation limit) is not observed by the program"] = true
				return -1
			}
			return concretizeInt(pc, s, 0, limit-1)
		}
		n := asInt64(v)
		if n < 0 {
			panic(goPanic{"makeslice: " + what + " out of range"})
		}
		if pc.allocLimit > 0 && n*esz > pc.allocLimit {
			pc.tryViolation("monitor", "alloc-limit", fmt.Sprintf("make([]%s, %d) exceeds the allocation limit of %d bytes", tElt, n, pc.allocLimit), fr.i.prog.Fset.Position(instr.Pos()).String(), "")
			panic(pathEnd{"alloc-limit"})
		}
		if n > 1<<24 {
			panic(goPanic{"makeslice: " + what + " out of range (engine limit 2^24 elements)"})
		}
		return n
	}
	l := resolve(ln, "len")
	c := resolve(cp, "cap")
	if c == -1 {
		c = l
	}
	if c < l {
		panic(goPanic{"makeslice: cap out of range"})
	}
	slice := make([]value, c)
	for i := range slice {
		slice[i] = zero(tElt)
	}
	if pc.watching {
		pc.markFreshSlice(slice)
	}
	return slice[:l]
}

func maxI64(a, b int64) int64 {
	if a > b {
		return a
	}
	return b
}

// ---- maps (deterministic iteration, symbolic keys by forking on equality) ----

// concretizeKey replaces symbolic integer components of a map key by concrete values (forking over
// the feasible values, found through solver models): map keys with symbolic tile indices etc.
func concretizeKey(fr *frame, key value) value {
	pc := fr.i.pc
	switch k := key.(type) {
	case sym:
		if k.k == skInt || k.k == skBV {
			c := pc.concretizeByModel(k.t, func(c int64) string { return eqConst(k, c) }, 64)
			return concreteOfKind(k.bk, c)
		}
	case structure:
		if !containsSym(k) {
			return key
		}
		out := make(structure, len(k))
		for i := range k {
			out[i] = concretizeKey(fr, k[i])
		}
		return out
	case array:
		if !containsSym(k) {
			return key
		}
		out := make(array, len(k))
		for i := range k {
			out[i] = concretizeKey(fr, k[i])
		}
		return out
	}
	return key
}

func mapUpdateS(fr *frame, m, key, v value) {
	pc := fr.i.pc
	if !pc.concrete && containsSym(key) {
		key = concretizeKey(fr, key)
	}
	if pc.watching {
		pc.checkMapWrite(fr, m)
	}
	switch m := m.(type) {
	case map[value]value:
		if m == nil {
			panic(goPanic{"assignment to entry in nil map"})
		}
		if isSym(key) || containsSym(key) {
			k := resolveSymKey(fr, keysOfBuiltin(m), key)
			m[k] = v
			return
		}
		m[key] = v
	case *hashmap:
		if m == nil {
			panic(goPanic{"assignment to entry in nil map"})
		}
		if containsSym(key) || hmHasSymKeys(m) {
			key = resolveSymKeyHM(fr, m, key)
		}
		m.insert(key.(hashable), v)
	default:
		panic(fmt.Sprintf("illegal map type: %T", m))
	}
}

func keysOfBuiltin(m map[value]value) []value {
	var ks []value
	for k := range m {
		ks = append(ks, k)
	}
	sort.Slice(ks, func(i, j int) bool { return toString(ks[i]) < toString(ks[j]) })
	return ks
}

// resolveSymKey: fork on equality of symbolic key with each existing key; returns the
// existing key object when equal, else the key itself.
func resolveSymKey(fr *frame, keys []value, key value) value {
	for _, k := range keys {
		e := binopS(fr, token.EQL, nil, key, k)
		switch b := e.(type) {
		case bool:
			if b {
				return k
			}
		case sym:
			if fr.i.pc.branch(b.t) {
				return k
			}
		}
	}
	return key
}

func hmHasSymKeys(m *hashmap) bool {
	if m == nil {
		return false
	}
	for _, e := range m.entries() {
		for ; e != nil; e = e.next {
			if containsSym(e.key) {
				return true
			}
		}
	}
	return false
}

func resolveSymKeyHM(fr *frame, m *hashmap, key value) value {
	var keys []value
	for _, e := range m.entries() {
		for ; e != nil; e = e.next {
			keys = append(keys, e.key)
		}
	}
	sort.Slice(keys, func(i, j int) bool { return toString(keys[i]) < toString(keys[j]) })
	kt := key
	for _, k := range keys {
		ki, ok1 := k.(iface)
		ky, ok2 := kt.(iface)
		var e value
		if ok1 && ok2 {
			if !sameType(ki.t, ky.t) {
				continue
			}
			e = symEquals(fr, ki.t, ky, ki)
		} else {
			continue
		}
		switch b := e.(type) {
		case bool:
			if b {
				return k
			}
		case sym:
			if fr.i.pc.branch(b.t) {
				return k
			}
		}
	}
	return key
}

func lookupS(fr *frame, instr *ssa.Lookup, x, idx value) value {
	if !fr.i.pc.concrete && containsSym(idx) {
		idx = concretizeKey(fr, idx)
	}
	switch m := x.(type) {
	case map[value]value:
		if isSym(idx) || containsSym(idx) {
			idx = resolveSymKey(fr, keysOfBuiltin(m), idx)
		}
	case *hashmap:
		if m != nil && (containsSym(idx) || hmHasSymKeys(m)) {
			idx = resolveSymKeyHM(fr, m, idx)
		}
		if m == nil {
			v := zero(instr.X.Type().Underlying().(*types.Map).Elem())
			if instr.CommaOk {
				return tuple{v, false}
			}
			return v
		}
	}
	return lookup(instr, x, idx)
}

type sliceIter struct {
	items []tuple
	i     int
}

func (it *sliceIter) next() tuple {
	if it.i >= len(it.items) {
		return tuple{false, nil, nil}
	}
	t := it.items[it.i]
	it.i++
	return t
}

func orderItems(items []tuple, keys []string, order int) []tuple {
	idx := make([]int, len(items))
	for i := range idx {
		idx[i] = i
	}
	sort.SliceStable(idx, func(a, b int) bool { return keys[idx[a]] < keys[idx[b]] })
	out := make([]tuple, len(items))
	for i, j := range idx {
		out[i] = items[j]
	}
	n := len(out)
	if n > 1 {
		switch order % 4 {
		case 1: // reversed
			for i, j := 0, n-1; i < j; i, j = i+1, j-1 {
				out[i], out[j] = out[j], out[i]
			}
		case 2: // rotated by 1
			out = append(out[1:], out[0])
		case 3: // rotated by n/2 and reversed
			out = append(out[n/2:], out[:n/2]...)
			for i, j := 0, n-1; i < j; i, j = i+1, j-1 {
				out[i], out[j] = out[j], out[i]
			}
		}
	}
	return out
}

func rangeIterS(fr *frame, x value, t types.Type) iter {
	switch xv := x.(type) {
	case map[value]value:
		var items []tuple
		var keys []string
		for k, v := range xv {
			items = append(items, tuple{true, k, v})
			keys = append(keys, toString(k))
		}
		return &sliceIter{items: orderItems(items, keys, fr.i.pc.mapOrder)}
	case *hashmap:
		var items []tuple
		var keys []string
		if xv != nil {
			for _, e := range xv.entries() {
				for ; e != nil; e = e.next {
					items = append(items, tuple{true, e.key, e.value})
					keys = append(keys, toString(e.key))
				}
			}
		}
		return &sliceIter{items: orderItems(items, keys, fr.i.pc.mapOrder)}
	case symString:
		var items []tuple
		for i, b := range xv.b {
			if s, ok := b.(sym); ok {
				// assume ASCII for symbolic bytes in ranged strings
				fr.i.pc.stats.Assumptions["symbolic text bytes are ASCII (< 0x80)"] = true
				fr.i.pc.assumeTerm("(bvult " + s.t + " " + bvLit(0x80, 8) + ")")
				items = append(items, tuple{true, i, symConv(fr, types.Int32, s)})
			} else {
				items = append(items, tuple{true, i, int32(b.(uint8))})
			}
		}
		return &sliceIter{items: items}
	}
	return rangeIter(x, t)
}

// ---- memory write monitor ----

func (pc *pathCtx) markFresh(addr *value) {
	if !pc.watching {
		return
	}
	pc.fresh[addr] = true
	switch v := (*addr).(type) {
	case structure:
		for i := range v {
			pc.markFresh(&v[i])
		}
	case array:
		for i := range v {
			pc.markFresh(&v[i])
		}
	}
}

func (pc *pathCtx) markFreshSlice(s []value) {
	if !pc.watching {
		return
	}
	s = s[:cap(s)]
	for i := range s {
		pc.markFresh(&s[i])
	}
}

func (pc *pathCtx) checkStore(fr *frame, addr *value, instr ssa.Instruction) {
	if pc.fresh[addr] || pc.allowed[addr] {
		return
	}
	pos := ""
	if instr != nil {
		pos = fr.i.prog.Fset.Position(instr.Pos()).String()
	}
	fn := ""
	if fr != nil && fr.fn != nil {
		fn = fr.fn.String()
	}
	pc.tryViolation("monitor", "write-to-shared", "store to memory that existed before the watched call, in "+fn, pos, "")
}

func (pc *pathCtx) checkMapWrite(fr *frame, m value) {
	if pc.freshMaps != nil && pc.freshMaps[mapID(m)] {
		return
	}
	pc.tryViolation("monitor", "write-to-shared", "map write to a map that existed before the watched call, in "+fr.fn.String(), "", "")
}

func mapID(m value) interface{} {
	switch m := m.(type) {
	case *hashmap:
		return m
	case map[value]value:
		return fmt.Sprintf("%p", m)
	}
	return nil
}

func (pc *pathCtx) assumeTerm(t string) {
	if pc.concrete {
		return
	}
	pc.assert(t)
}

// copyVal copies aggregate values (structs, arrays) so that cells are not aliased.
func copyVal(v value) value {
	switch x := v.(type) {
	case structure:
		c := make(structure, len(x))
		for i := range x {
			c[i] = copyVal(x[i])
		}
		return c
	case array:
		c := make(array, len(x))
		for i := range x {
			c[i] = copyVal(x[i])
		}
		return c
	}
	return v
}
