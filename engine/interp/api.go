package interp

// Public API of the symbolic executor: program loading, path exploration.

import (
	"fmt"
	"go/token"
	"go/types"
	"os"
	"runtime"
	"runtime/debug"
	"sort"
	"strconv"
	"strings"
	"time"

	"golang.org/x/tools/go/packages"
	"golang.org/x/tools/go/ssa"
	"golang.org/x/tools/go/ssa/ssautil"
)

type Config struct {
	InitPkgs     []string // package path prefixes whose init() is executed
	TrackPkgs    []string // package path prefixes whose entered functions are reported
	MaxSteps     int64
	PathSeconds  int // wall-clock limit per path (0: 300)
	MaxSymBr     int
	FloatFP      bool
	TimeoutMs    int
	SolverBin    string
	Trace        bool
	MapOrder     int
	MaxPaths     int
	StopOnFirst  bool
	MergeFuncs   map[string]bool // pure functions summarised by ITE-merging their paths
	ExactReal    bool            // concrete float divisions that are inexact are kept as exact rationals
	UFStubs      map[string]bool // float-valued functions replaced by an uninterpreted function of their scalar arguments
	LatticeFirst bool            // NRA obligations: try the dyadic-lattice query before the unrestricted one
	FeasMs       int             // shorter solver timeout for branch-feasibility queries (unknown keeps both sides)
}

func (c *Config) initAllowed(path string) bool {
	for _, p := range c.InitPkgs {
		if path == p || strings.HasPrefix(path, p+"/") {
			return true
		}
	}
	return false
}

func (c *Config) trackPkg(path string) bool {
	for _, p := range c.TrackPkgs {
		if path == p || strings.HasPrefix(path, p+"/") {
			return true
		}
	}
	return false
}

var DefaultInitPkgs = []string{
	"github.com/paulmach/orb", "github.com/paulmach/protoscan",
	"io", "bytes", "strings", "sort", "math", "math/bits", "encoding/binary",
	"encoding/hex", "unicode/utf8", "strconv",
}

type Program struct {
	Prog         *ssa.Program
	Pkgs         []*packages.Package
	SSAPkgs      map[string]*ssa.Package
	reflectPkg   *ssa.Package
	rtypeMethods methodSet
	errorMethods methodSet
	sizes        types.Sizes
	runtimeErr   types.Type
	errorStrPtr  types.Type
}

// Load loads patterns from dir with the given overlay (path -> content).
func Load(dir string, overlay map[string][]byte, patterns ...string) (*Program, error) {
	cfg := &packages.Config{
		Mode:    packages.LoadAllSyntax,
		Dir:     dir,
		Overlay: overlay,
		Env:     append(os.Environ(), "GOFLAGS=-mod=mod", "GOPROXY=off", "GOSUMDB=off", "GOTOOLCHAIN=local"),
		Tests:   false,
	}
	pkgs, err := packages.Load(cfg, append(patterns, "runtime")...)
	if err != nil {
		return nil, err
	}
	var errs []string
	packages.Visit(pkgs, nil, func(p *packages.Package) {
		for _, e := range p.Errors {
			if strings.Contains(e.Msg, "missing function body") {
				continue
			}
			errs = append(errs, e.Error())
		}
	})
	if len(errs) > 0 {
		if len(errs) > 10 {
			errs = errs[:10]
		}
		return nil, fmt.Errorf("load errors:\n%s", strings.Join(errs, "\n"))
	}
	prog, ssapkgs := ssautil.AllPackages(pkgs, ssa.InstantiateGenerics|ssa.SanityCheckFunctions&0)
	prog.Build()
	p := &Program{Prog: prog, Pkgs: pkgs, SSAPkgs: map[string]*ssa.Package{}}
	for i, sp := range ssapkgs {
		if sp != nil {
			p.SSAPkgs[pkgs[i].PkgPath] = sp
		}
	}
	for _, sp := range prog.AllPackages() {
		if _, ok := p.SSAPkgs[sp.Pkg.Path()]; !ok {
			p.SSAPkgs[sp.Pkg.Path()] = sp
		}
	}
	p.sizes = types.SizesFor("gc", "amd64")
	rt := prog.ImportedPackage("runtime")
	if rt == nil {
		return nil, fmt.Errorf("no runtime package")
	}
	p.runtimeErr = rt.Type("errorString").Object().Type()
	if ep := prog.ImportedPackage("errors"); ep != nil {
		p.errorStrPtr = types.NewPointer(ep.Type("errorString").Object().Type())
	}
	// one-time reflect faking (mutates the program)
	tmp := &interpreter{prog: prog}
	initReflect(tmp)
	p.reflectPkg, p.rtypeMethods, p.errorMethods = tmp.reflectPackage, tmp.rtypeMethods, tmp.errorMethods
	return p, nil
}

func (p *Program) Func(pkgPath, name string) *ssa.Function {
	sp := p.SSAPkgs[pkgPath]
	if sp == nil {
		return nil
	}
	return sp.Func(name)
}

type Outcome struct {
	Violations   []Violation
	Stats        *PathStats
	Solver       SolverStats
	Inconclusive []string // reasons (unsupported, unwind hit, unknown obligations)
	Paths        int
}

// Worker owns one solver process.
type Worker struct {
	P      *Program
	Cfg    *Config
	Solver *Solver

	lastRecycle int64
}

func NewWorker(p *Program, cfg *Config) (*Worker, error) {
	bin := cfg.SolverBin
	if bin == "" {
		bin = "z3"
	}
	to := cfg.TimeoutMs
	if to == 0 {
		to = 20000
	}
	s, err := NewSolver(bin, to)
	if err != nil {
		return nil, err
	}
	if cfg.Trace {
		s.Trace = os.Stderr
	}
	return &Worker{P: p, Cfg: cfg, Solver: s}, nil
}

func (w *Worker) Close() { w.Solver.Close() }

func (w *Worker) newInterp(pc *pathCtx) *interpreter {
	i := &interpreter{
		prog:               w.P.Prog,
		globals:            make(map[*ssa.Global]*value),
		sizes:              w.P.sizes,
		goroutines:         1,
		reflectPackage:     w.P.reflectPkg,
		rtypeMethods:       w.P.rtypeMethods,
		errorMethods:       w.P.errorMethods,
		runtimeErrorString: w.P.runtimeErr,
		errorStringPtr:     w.P.errorStrPtr,
		pc:                 pc,
		cfg:                w.Cfg,
	}
	return i
}

// CallConcrete runs fn(args) with no symbolic inputs (used for case counting); returns the result.
func (w *Worker) CallConcrete(fn *ssa.Function, args ...interface{}) (res interface{}, err error) {
	pc := &pathCtx{solver: w.Solver, stats: newPathStats(), maxSteps: 50_000_000, concrete: true, names: map[string]int{}}
	i := w.newInterp(pc)
	defer func() {
		if r := recover(); r != nil {
			err = fmt.Errorf("concrete call panicked: %v\n%s", describePanic(r), strings.Join(i.panicTrace, "\n"))
		}
	}()
	call(i, nil, token.NoPos, fn.Pkg.Func("init"), nil)
	var vargs []value
	for _, a := range args {
		vargs = append(vargs, a)
	}
	r := call(i, nil, token.NoPos, fn, vargs)
	return r, nil
}

func describePanic(r interface{}) string {
	switch p := r.(type) {
	case targetPanic:
		return "panic: " + toString(p.v)
	case goPanic:
		return p.Error()
	case runtime.Error:
		return "host runtime error: " + p.Error()
	case unsupported:
		return "unsupported: " + p.what
	case pathEnd:
		return "pathEnd: " + p.reason
	case engineError:
		return "engine: " + p.msg
	}
	return fmt.Sprintf("%T: %v", r, r)
}

func isEnginePanic(r interface{}) bool {
	switch p := r.(type) {
	case pathEnd, unsupported, engineError:
		return true
	case runtime.Error:
		// host runtime errors that correspond to target panics are let through;
		// anything else is an engine bug.
		m := p.Error()
		if strings.Contains(m, "index out of range") || strings.Contains(m, "slice bounds out of range") ||
			strings.Contains(m, "nil map") || strings.Contains(m, "divide by zero") {
			return false
		}
		return true
	case string:
		return false
	}
	return false
}

// Explore explores all paths of fn(args...) (args concrete) and returns the outcome.
func (w *Worker) Explore(fn *ssa.Function, args []interface{}) *Outcome {
	out := &Outcome{Stats: newPathStats()}
	pending := [][]int64{nil}
	maxPaths := w.Cfg.MaxPaths
	if maxPaths == 0 {
		maxPaths = 200000
	}
	base := w.Solver.Stats
	for len(pending) > 0 {
		prefix := pending[len(pending)-1]
		pending = pending[:len(pending)-1]
		if out.Paths >= maxPaths {
			out.Inconclusive = append(out.Inconclusive, fmt.Sprintf("path limit %d reached", maxPaths))
			break
		}
		pc := w.runPath(fn, args, prefix, out)
		out.Paths++
		pending = append(pending, pc.pending...)
		out.Violations = append(out.Violations, pc.viol...)
		if w.Cfg.StopOnFirst && len(out.Violations) > 0 {
			break
		}
	}
	out.Stats.Paths = out.Paths
	st := w.Solver.Stats
	out.Solver = SolverStats{Queries: st.Queries - base.Queries, Sat: st.Sat - base.Sat, Unsat: st.Unsat - base.Unsat,
		Unknown: st.Unknown - base.Unknown, Restarts: st.Restarts - base.Restarts, Nanos: st.Nanos - base.Nanos}
	return out
}

func (w *Worker) runPath(fn *ssa.Function, args []interface{}, prefix []int64, out *Outcome) *pathCtx {
	maxSteps := w.Cfg.MaxSteps
	if maxSteps == 0 {
		maxSteps = 20_000_000
	}
	pc := &pathCtx{solver: w.Solver, prefix: prefix, stats: out.Stats, maxSteps: maxSteps, names: map[string]int{},
		floatFP: w.Cfg.FloatFP, mapOrder: w.Cfg.MapOrder, feasMs: w.Cfg.FeasMs, latticeFirst: w.Cfg.LatticeFirst}
	ps := w.Cfg.PathSeconds
	if ps == 0 {
		ps = 300
		if e, err := strconv.Atoi(os.Getenv("GOSYM_PATH_SECONDS")); err == nil && e > 0 {
			ps = e
		}
	}
	pc.deadline = time.Now().Add(time.Duration(ps) * time.Second)
	i := w.newInterp(pc)
	w.Solver.Push()
	defer func() {
		w.Solver.Reset()
	}()
	func() {
		defer func() {
			r := recover()
			if r == nil {
				return
			}
			switch p := r.(type) {
			case pathEnd:
				if p.reason == "step-limit" || p.reason == "symbranch-limit" || p.reason == "call-depth" || p.reason == "path-time-limit" {
					out.Stats.UnwindHits++
					out.Inconclusive = append(out.Inconclusive, "unwinding assertion failed: "+p.reason)
				}
			case unsupported:
				out.Inconclusive = append(out.Inconclusive, "unsupported: "+p.what)
				out.Stats.Unsupported = append(out.Stats.Unsupported, p.what)
			case engineError:
				out.Inconclusive = append(out.Inconclusive, "engine: "+p.msg)
			case targetPanic:
				msg := toString(p.v)
				if strings.HasPrefix(msg, "VFASSERT:") {
					// concrete-mode assertion failure already recorded
					return
				}
				pc.tryViolation("panic", panicClass(msg), msg, "", "")
			case goPanic:
				pc.tryViolation("panic", panicClass(p.msg), p.Error(), "", "")
			case runtime.Error:
				m := p.Error()
				if isEnginePanic(p) {
					out.Inconclusive = append(out.Inconclusive, "engine bug (host runtime error): "+m+"\n"+string(debug.Stack()))
				} else {
					pc.tryViolation("panic", panicClass(m), m, "", "")
				}
			case string:
				// interp-internal panic(string): treat as Go runtime panic text if it looks like one
				if strings.Contains(p, "interface conversion") || strings.Contains(p, "nil") {
					pc.tryViolation("panic", panicClass(p), p, "", "")
				} else {
					out.Inconclusive = append(out.Inconclusive, "engine panic: "+p)
				}
			default:
				out.Inconclusive = append(out.Inconclusive, fmt.Sprintf("engine panic %T: %v\n%s", r, r, debug.Stack()))
			}
		}()
		call(i, nil, token.NoPos, fn.Pkg.Func("init"), nil)
		var vargs []value
		for _, a := range args {
			vargs = append(vargs, a)
		}
		call(i, nil, token.NoPos, fn, vargs)
	}()
	for k := range pc.viol {
		if pc.viol[k].Stack == "" && pc.viol[k].Kind == "panic" {
			pc.viol[k].Stack = strings.Join(i.panicTrace, " <- ")
		}
	}
	if pc.nsym > 0 {
		out.Stats.Nontrivial++
	}
	if pc.nsym > 0 && len(out.Stats.Samples) < 12 {
		var names []string
		for _, n := range pc.nondets {
			names = append(names, n.Name)
		}
		sort.Strings(names)
		out.Stats.Samples = append(out.Stats.Samples, fmt.Sprintf("path decisions=%v nondets=%d", pc.taken, len(pc.nondets)))
	}
	return pc
}

func panicClass(msg string) string {
	switch {
	case strings.Contains(msg, "index out of range"):
		return "index-out-of-range"
	case strings.Contains(msg, "slice bounds out of range"):
		return "slice-bounds"
	case strings.Contains(msg, "nil pointer") || strings.Contains(msg, "nil interface"):
		return "nil-deref"
	case strings.Contains(msg, "divide by zero"):
		return "div-zero"
	case strings.Contains(msg, "makeslice"):
		return "makeslice"
	case strings.Contains(msg, "interface conversion"):
		return "type-assert"
	case strings.Contains(msg, "nil map"):
		return "nil-map"
	}
	return "explicit-panic"
}

// PathResult is the outcome of one explored path.
type PathResult struct {
	Pending      [][]int64
	Violations   []Violation
	Stats        *PathStats
	Inconclusive []string
	Solver       SolverStats
}

// RunOne explores exactly one path of fn(args...) determined by the decision prefix.
func (w *Worker) RunOne(fn *ssa.Function, args []interface{}, prefix []int64) *PathResult {
	// a long-lived z3 process slows down as it accumulates popped declarations: recycle it
	if w.Solver.Stats.Queries-w.lastRecycle > 4000 {
		w.Solver.Recycle()
		w.lastRecycle = w.Solver.Stats.Queries
	}
	out := &Outcome{Stats: newPathStats()}
	base := w.Solver.Stats
	pc := w.runPath(fn, args, prefix, out)
	st := w.Solver.Stats
	out.Stats.Paths = 1
	return &PathResult{Pending: pc.pending, Violations: pc.viol, Stats: out.Stats, Inconclusive: out.Inconclusive,
		Solver: SolverStats{Queries: st.Queries - base.Queries, Sat: st.Sat - base.Sat, Unsat: st.Unsat - base.Unsat,
			Unknown: st.Unknown - base.Unknown, Restarts: st.Restarts - base.Restarts, Nanos: st.Nanos - base.Nanos}}
}
