package interp

// Symbolic scalar values and their SMT encoding.

import (
	"fmt"
	"go/token"
	"go/types"
	"math"
	"math/big"
	"strings"
)

type symKind uint8

const (
	skBool symKind = iota
	skBV           // machine integer, wrap-around semantics
	skReal         // float64 modelled as exact real
	skInt          // machine integer derived from a real (mathematical integer, no wrap modelled)
	skFP           // float64 as IEEE binary64
)

type sym struct {
	k  symKind
	bk types.BasicKind // Go basic kind (Bool, Int..Uintptr, Float64)
	t  string          // SMT term
}

func isSym(v value) bool {
	_, ok := v.(sym)
	return ok
}

func bkWidth(k types.BasicKind) int {
	switch k {
	case types.Int8, types.Uint8:
		return 8
	case types.Int16, types.Uint16:
		return 16
	case types.Int32, types.Uint32:
		return 32
	case types.Int, types.Int64, types.Uint, types.Uint64, types.Uintptr:
		return 64
	}
	panic(fmt.Sprintf("bkWidth: %v", k))
}

func bkSigned(k types.BasicKind) bool {
	switch k {
	case types.Int, types.Int8, types.Int16, types.Int32, types.Int64:
		return true
	}
	return false
}

func bkIsInt(k types.BasicKind) bool {
	switch k {
	case types.Int, types.Int8, types.Int16, types.Int32, types.Int64,
		types.Uint, types.Uint8, types.Uint16, types.Uint32, types.Uint64, types.Uintptr:
		return true
	}
	return false
}

func basicKindOfType(t types.Type) types.BasicKind {
	if b, ok := t.Underlying().(*types.Basic); ok {
		k := b.Kind()
		switch k {
		case types.UntypedInt:
			return types.Int
		case types.UntypedFloat:
			return types.Float64
		case types.UntypedBool:
			return types.Bool
		case types.UntypedRune:
			return types.Int32
		}
		return k
	}
	return types.Invalid
}

func bkOfValue(v value) types.BasicKind {
	switch v := v.(type) {
	case sym:
		return v.bk
	case bool:
		return types.Bool
	case int:
		return types.Int
	case int8:
		return types.Int8
	case int16:
		return types.Int16
	case int32:
		return types.Int32
	case int64:
		return types.Int64
	case uint:
		return types.Uint
	case uint8:
		return types.Uint8
	case uint16:
		return types.Uint16
	case uint32:
		return types.Uint32
	case uint64:
		return types.Uint64
	case uintptr:
		return types.Uintptr
	case float32:
		return types.Float32
	case float64:
		return types.Float64
	}
	return types.Invalid
}

func bvSort(w int) string { return fmt.Sprintf("(_ BitVec %d)", w) }

const fpSort = "(_ FloatingPoint 11 53)"

func (s sym) sort() string {
	switch s.k {
	case skBool:
		return "Bool"
	case skBV:
		return bvSort(bkWidth(s.bk))
	case skReal:
		return "Real"
	case skInt:
		return "Int"
	case skFP:
		return fpSort
	}
	panic("sort")
}

func bvLit(u uint64, w int) string {
	if w < 64 {
		u &= (uint64(1) << uint(w)) - 1
	}
	return fmt.Sprintf("(_ bv%d %d)", u, w)
}

func intLit(i int64) string {
	if i < 0 {
		if i == math.MinInt64 {
			return "(- 9223372036854775808)"
		}
		return fmt.Sprintf("(- %d)", -i)
	}
	return fmt.Sprintf("%d", i)
}

func ratLit(r *big.Rat) string {
	neg := r.Sign() < 0
	a := new(big.Rat).Abs(r)
	var s string
	if a.IsInt() {
		s = a.Num().String() + ".0"
	} else {
		s = "(/ " + a.Num().String() + ".0 " + a.Denom().String() + ".0)"
	}
	if neg {
		return "(- " + s + ")"
	}
	return s
}

func realLit(f float64) string {
	if math.IsNaN(f) || math.IsInf(f, 0) {
		panic(unsupported{"non-finite float constant in real model"})
	}
	r := new(big.Rat)
	r.SetFloat64(f)
	return ratLit(r)
}

func fpLit(f float64) string {
	b := math.Float64bits(f)
	return fmt.Sprintf("(fp #b%01b #b%011b #b%052b)", b>>63, (b>>52)&0x7ff, b&((1<<52)-1))
}

// asU64 returns the raw two's complement bits of a concrete Go integer.
func asU64(v value) uint64 {
	switch x := v.(type) {
	case int:
		return uint64(x)
	case int8:
		return uint64(x)
	case int16:
		return uint64(x)
	case int32:
		return uint64(x)
	case int64:
		return uint64(x)
	case uint:
		return uint64(x)
	case uint8:
		return uint64(x)
	case uint16:
		return uint64(x)
	case uint32:
		return uint64(x)
	case uint64:
		return x
	case uintptr:
		return uint64(x)
	}
	panic(fmt.Sprintf("asU64: %T", v))
}

// liftAs returns the SMT term of concrete value v in the representation kind k.
func liftAs(v value, k symKind) string {
	switch k {
	case skBool:
		if v.(bool) {
			return "true"
		}
		return "false"
	case skBV:
		return bvLit(asU64(v), bkWidth(bkOfValue(v)))
	case skInt:
		if bkSigned(bkOfValue(v)) {
			return intLit(asInt64(v))
		}
		return new(big.Int).SetUint64(asU64(v)).String()
	case skReal:
		switch f := v.(type) {
		case float64:
			return realLit(f)
		case float32:
			return realLit(float64(f))
		}
	case skFP:
		switch f := v.(type) {
		case float64:
			return fpLit(f)
		}
	}
	panic(unsupported{fmt.Sprintf("liftAs %T to kind %d", v, k)})
}

func termOf(v value, k symKind) string {
	if s, ok := v.(sym); ok {
		if s.k != k {
			panic(unsupported{fmt.Sprintf("mixed symbolic kinds %d vs %d (%s)", s.k, k, s.t)})
		}
		return s.t
	}
	return liftAs(v, k)
}

func nonFinite(v value) (float64, bool) {
	if f, ok := v.(float64); ok && (math.IsInf(f, 0) || math.IsNaN(f)) {
		return f, true
	}
	return 0, false
}

func mkBool(pc *pathCtx, t string) value {
	if t == "true" {
		return true
	}
	if t == "false" {
		return false
	}
	return sym{k: skBool, bk: types.Bool, t: pc.def("Bool", t)}
}

func boolTerm(v value) string {
	switch b := v.(type) {
	case bool:
		if b {
			return "true"
		}
		return "false"
	case sym:
		return b.t
	}
	panic(fmt.Sprintf("boolTerm: %T", v))
}

// symBinop implements binary operators when at least one operand is symbolic.
// bvToInt gives the mathematical value of a bit-vector symbol as an Int-sorted symbol.
func bvToInt(pc *pathCtx, s sym) sym {
	w := bkWidth(s.bk)
	t := "(bv2int " + s.t + ")"
	if bkSigned(s.bk) {
		t = fmt.Sprintf("(ite (bvslt %s (_ bv0 %d)) (- (bv2int %s) %s) (bv2int %s))", s.t, w, s.t, new(big.Int).Lsh(big.NewInt(1), uint(w)).String(), s.t)
	}
	return sym{k: skInt, bk: s.bk, t: pc.def("Int", t)}
}

func symBinop(fr *frame, op token.Token, t types.Type, x, y value) value {
	pc := fr.i.pc
	if sx, ok := x.(sym); ok {
		if sy, ok := y.(sym); ok && sx.k != sy.k && op != token.SHL && op != token.SHR {
			// a machine integer next to an integer derived from a real: compare / combine as mathematical integers
			if sx.k == skBV && sy.k == skInt {
				x = bvToInt(pc, sx)
			} else if sx.k == skInt && sy.k == skBV {
				y = bvToInt(pc, sy)
			}
		}
	}
	var k symKind
	var bk types.BasicKind
	if sx, ok := x.(sym); ok {
		k, bk = sx.k, sx.bk
	} else {
		sy := y.(sym)
		k = sy.k
		bk = bkOfValue(x)
		if op == token.SHL || op == token.SHR {
			// symbolic shift count, concrete left operand: left operand is a BV
			k = skBV
		}
	}
	switch k {
	case skBool:
		a, b := boolTerm(x), boolTerm(y)
		switch op {
		case token.EQL:
			return mkBool(pc, "(= "+a+" "+b+")")
		case token.NEQ:
			return mkBool(pc, "(not (= "+a+" "+b+"))")
		case token.AND, token.LAND:
			return mkBool(pc, "(and "+a+" "+b+")")
		case token.OR, token.LOR:
			return mkBool(pc, "(or "+a+" "+b+")")
		}
	case skBV:
		return symBinopBV(fr, op, bk, x, y)
	case skInt:
		return symBinopInt(fr, op, bk, x, y)
	case skReal:
		return symBinopReal(fr, op, x, y)
	case skFP:
		return symBinopFP(fr, op, x, y)
	}
	panic(unsupported{fmt.Sprintf("symBinop %s on kind %d", op, k)})
}

func symBinopBV(fr *frame, op token.Token, bk types.BasicKind, x, y value) value {
	pc := fr.i.pc
	w := bkWidth(bk)
	signed := bkSigned(bk)
	srt := bvSort(w)
	if op == token.SHL || op == token.SHR {
		a := termOf(x, skBV)
		// shift count: any integer type; Go panics on negative signed count
		ybk := bkOfValue(y)
		if ys, ok := y.(sym); ok && ys.k != skBV {
			panic(unsupported{"non-BV symbolic shift count"})
		}
		yw := bkWidth(ybk)
		b := termOf(y, skBV)
		if bkSigned(ybk) {
			if _, ok := y.(sym); ok {
				neg := "(bvslt " + b + " " + bvLit(0, yw) + ")"
				if pc.branch(neg) {
					panic(goPanic{"negative shift amount"})
				}
			}
		}
		var cnt, over string
		if yw > w {
			cnt = fmt.Sprintf("((_ extract %d 0) %s)", w-1, b)
			over = "(bvuge " + b + " " + bvLit(uint64(w), yw) + ")"
		} else if yw < w {
			cnt = fmt.Sprintf("((_ zero_extend %d) %s)", w-yw, b)
		} else {
			cnt = b
		}
		var r string
		switch {
		case op == token.SHL:
			r = "(bvshl " + a + " " + cnt + ")"
			if over != "" {
				r = "(ite " + over + " " + bvLit(0, w) + " " + r + ")"
			}
		case signed:
			r = "(bvashr " + a + " " + cnt + ")"
			if over != "" {
				r = "(ite " + over + " (bvashr " + a + " " + bvLit(uint64(w-1), w) + ") " + r + ")"
			}
		default:
			r = "(bvlshr " + a + " " + cnt + ")"
			if over != "" {
				r = "(ite " + over + " " + bvLit(0, w) + " " + r + ")"
			}
		}
		return sym{k: skBV, bk: bk, t: pc.def(srt, r)}
	}
	a, b := termOf(x, skBV), termOf(y, skBV)
	arith := func(o string) value {
		return sym{k: skBV, bk: bk, t: pc.def(srt, "("+o+" "+a+" "+b+")")}
	}
	cmp := func(so, uo string) value {
		o := uo
		if signed {
			o = so
		}
		return mkBool(pc, "("+o+" "+a+" "+b+")")
	}
	switch op {
	case token.ADD:
		return arith("bvadd")
	case token.SUB:
		return arith("bvsub")
	case token.MUL:
		return arith("bvmul")
	case token.QUO, token.REM:
		if _, ok := y.(sym); ok {
			if pc.branch("(= " + b + " " + bvLit(0, w) + ")") {
				panic(goPanic{"integer divide by zero"})
			}
		} else if asU64(y) == 0 {
			panic(goPanic{"integer divide by zero"})
		}
		if op == token.QUO {
			if signed {
				return arith("bvsdiv")
			}
			return arith("bvudiv")
		}
		if signed {
			return arith("bvsrem")
		}
		return arith("bvurem")
	case token.AND:
		return arith("bvand")
	case token.OR:
		return arith("bvor")
	case token.XOR:
		return arith("bvxor")
	case token.AND_NOT:
		return sym{k: skBV, bk: bk, t: pc.def(srt, "(bvand "+a+" (bvnot "+b+"))")}
	case token.EQL:
		return mkBool(pc, "(= "+a+" "+b+")")
	case token.NEQ:
		return mkBool(pc, "(not (= "+a+" "+b+"))")
	case token.LSS:
		return cmp("bvslt", "bvult")
	case token.LEQ:
		return cmp("bvsle", "bvule")
	case token.GTR:
		return cmp("bvsgt", "bvugt")
	case token.GEQ:
		return cmp("bvsge", "bvuge")
	}
	panic(unsupported{fmt.Sprintf("BV binop %s", op)})
}

func symBinopInt(fr *frame, op token.Token, bk types.BasicKind, x, y value) value {
	pc := fr.i.pc
	a, b := termOf(x, skInt), termOf(y, skInt)
	ar := func(o string) value { return sym{k: skInt, bk: bk, t: pc.def("Int", "("+o+" "+a+" "+b+")")} }
	switch op {
	case token.ADD:
		return ar("+")
	case token.SUB:
		return ar("-")
	case token.MUL:
		return ar("*")
	case token.EQL:
		return mkBool(pc, "(= "+a+" "+b+")")
	case token.NEQ:
		return mkBool(pc, "(not (= "+a+" "+b+"))")
	case token.LSS:
		return mkBool(pc, "(< "+a+" "+b+")")
	case token.LEQ:
		return mkBool(pc, "(<= "+a+" "+b+")")
	case token.GTR:
		return mkBool(pc, "(> "+a+" "+b+")")
	case token.GEQ:
		return mkBool(pc, "(>= "+a+" "+b+")")
	case token.QUO, token.REM:
		// truncated division on mathematical integers
		if _, ok := y.(sym); ok {
			if pc.branch("(= " + b + " 0)") {
				panic(goPanic{"integer divide by zero"})
			}
		} else if asInt64(y) == 0 {
			panic(goPanic{"integer divide by zero"})
		}
		q := "(ite (>= " + a + " 0) (ite (> " + b + " 0) (div " + a + " " + b + ") (- (div " + a + " (- " + b + ")))) (ite (> " + b + " 0) (- (div (- " + a + ") " + b + ")) (div (- " + a + ") (- " + b + "))))"
		if op == token.QUO {
			return sym{k: skInt, bk: bk, t: pc.def("Int", q)}
		}
		return sym{k: skInt, bk: bk, t: pc.def("Int", "(- "+a+" (* "+b+" "+q+"))")}
	}
	switch op {
	case token.AND, token.OR, token.XOR, token.AND_NOT, token.SHL, token.SHR:
		_, ysym := y.(sym)
		if !ysym {
			c := asInt64(y)
			switch {
			case op == token.AND && c >= 0 && (c&(c+1)) == 0 && !bkSigned(bk):
				return sym{k: skInt, bk: bk, t: pc.def("Int", fmt.Sprintf("(mod %s %d)", a, c+1))}
			case op == token.SHL && c >= 0 && c < 62:
				return sym{k: skInt, bk: bk, t: pc.def("Int", fmt.Sprintf("(* %s %d)", a, int64(1)<<uint(c)))}
			case op == token.SHR && c >= 0 && c < 62:
				return sym{k: skInt, bk: bk, t: pc.def("Int", fmt.Sprintf("(div %s %d)", a, int64(1)<<uint(c)))}
			}
		}
		if op == token.SHL || op == token.SHR {
			break
		}
		// general case through bit-vectors of the operand width (wraps like the machine operation)
		w := bkWidth(bk)
		ta := fmt.Sprintf("((_ int2bv %d) %s)", w, a)
		tb := fmt.Sprintf("((_ int2bv %d) %s)", w, b)
		var r string
		switch op {
		case token.AND:
			r = "(bvand " + ta + " " + tb + ")"
		case token.OR:
			r = "(bvor " + ta + " " + tb + ")"
		case token.XOR:
			r = "(bvxor " + ta + " " + tb + ")"
		default:
			r = "(bvand " + ta + " (bvnot " + tb + "))"
		}
		bv := pc.def(fmt.Sprintf("(_ BitVec %d)", w), r)
		t := "(bv2int " + bv + ")"
		if bkSigned(bk) {
			t = fmt.Sprintf("(ite (bvslt %s (_ bv0 %d)) (- (bv2int %s) %s) (bv2int %s))", bv, w, bv, new(big.Int).Lsh(big.NewInt(1), uint(w)).String(), bv)
		}
		return sym{k: skInt, bk: bk, t: pc.def("Int", t)}
	}
	panic(unsupported{fmt.Sprintf("Int binop %s", op)})
}

func symBinopReal(fr *frame, op token.Token, x, y value) value {
	pc := fr.i.pc
	// concrete non-finite operand meeting a symbolic real
	if f, ok := nonFinite(x); ok {
		return realWithNonFinite(op, f, true)
	}
	if f, ok := nonFinite(y); ok {
		return realWithNonFinite(op, f, false)
	}
	a, b := termOf(x, skReal), termOf(y, skReal)
	ar := func(o string) value { return sym{k: skReal, bk: types.Float64, t: pc.def("Real", "("+o+" "+a+" "+b+")")} }
	switch op {
	case token.ADD:
		return ar("+")
	case token.SUB:
		return ar("-")
	case token.MUL:
		return ar("*")
	case token.QUO:
		if _, ok := y.(sym); ok {
			if pc.branch("(= " + b + " 0.0)") {
				// IEEE: x/0 = +-Inf or NaN
				if xs, ok := x.(sym); ok {
					if pc.branch("(= " + xs.t + " 0.0)") {
						return math.NaN()
					}
					if pc.branch("(> " + xs.t + " 0.0)") {
						return math.Inf(1)
					}
					return math.Inf(-1)
				}
				return x.(float64) / 0.0
			}
		} else if y.(float64) == 0 {
			xs := x.(sym)
			if pc.branch("(= " + xs.t + " 0.0)") {
				return math.NaN()
			}
			if pc.branch("(> " + xs.t + " 0.0)") {
				return math.Inf(1)
			}
			return math.Inf(-1)
		}
		return ar("/")
	case token.EQL:
		return mkBool(pc, "(= "+a+" "+b+")")
	case token.NEQ:
		return mkBool(pc, "(not (= "+a+" "+b+"))")
	case token.LSS:
		return mkBool(pc, "(< "+a+" "+b+")")
	case token.LEQ:
		return mkBool(pc, "(<= "+a+" "+b+")")
	case token.GTR:
		return mkBool(pc, "(> "+a+" "+b+")")
	case token.GEQ:
		return mkBool(pc, "(>= "+a+" "+b+")")
	}
	panic(unsupported{fmt.Sprintf("Real binop %s", op)})
}

// realWithNonFinite: IEEE rules for a finite symbolic real combined with a concrete
// infinity / NaN. nfLeft tells which side the non-finite constant is on.
func realWithNonFinite(op token.Token, f float64, nfLeft bool) value {
	if math.IsNaN(f) {
		switch op {
		case token.EQL, token.LSS, token.LEQ, token.GTR, token.GEQ:
			return false
		case token.NEQ:
			return true
		case token.ADD, token.SUB, token.MUL, token.QUO:
			return math.NaN()
		}
	}
	pos := f > 0
	switch op {
	case token.EQL:
		return false
	case token.NEQ:
		return true
	case token.LSS, token.LEQ: // nf < x  or x < nf
		if nfLeft {
			return !pos
		}
		return pos
	case token.GTR, token.GEQ:
		if nfLeft {
			return pos
		}
		return !pos
	case token.ADD:
		return f
	case token.SUB:
		if nfLeft {
			return f
		}
		return -f
	case token.QUO:
		if !nfLeft {
			return 0.0 // finite / inf = 0 (sign ignored)
		}
	}
	panic(unsupported{fmt.Sprintf("real op %s with non-finite constant", op)})
}

func symBinopFP(fr *frame, op token.Token, x, y value) value {
	pc := fr.i.pc
	if r, ok := intLikeBinop(pc, op, x, y); ok {
		return r
	}
	a, b := termOf(x, skFP), termOf(y, skFP)
	ar := func(o string) value {
		return sym{k: skFP, bk: types.Float64, t: pc.def(fpSort, "("+o+" RNE "+a+" "+b+")")}
	}
	switch op {
	case token.ADD:
		return ar("fp.add")
	case token.SUB:
		return ar("fp.sub")
	case token.MUL:
		return ar("fp.mul")
	case token.QUO:
		return ar("fp.div")
	case token.EQL:
		return mkBool(pc, "(fp.eq "+a+" "+b+")")
	case token.NEQ:
		return mkBool(pc, "(not (fp.eq "+a+" "+b+"))")
	case token.LSS:
		return mkBool(pc, "(fp.lt "+a+" "+b+")")
	case token.LEQ:
		return mkBool(pc, "(fp.leq "+a+" "+b+")")
	case token.GTR:
		return mkBool(pc, "(fp.gt "+a+" "+b+")")
	case token.GEQ:
		return mkBool(pc, "(fp.geq "+a+" "+b+")")
	}
	panic(unsupported{fmt.Sprintf("FP binop %s", op)})
}

func symUnop(fr *frame, op token.Token, x sym) value {
	pc := fr.i.pc
	switch op {
	case token.NOT:
		if strings.HasPrefix(x.t, "(not ") {
			return mkBool(pc, strings.TrimSuffix(strings.TrimPrefix(x.t, "(not "), ")"))
		}
		return mkBool(pc, "(not "+x.t+")")
	case token.SUB:
		switch x.k {
		case skBV:
			return sym{k: skBV, bk: x.bk, t: pc.def(x.sort(), "(bvneg "+x.t+")")}
		case skReal, skInt:
			return sym{k: x.k, bk: x.bk, t: pc.def(x.sort(), "(- "+x.t+")")}
		case skFP:
			return sym{k: skFP, bk: x.bk, t: pc.def(fpSort, "(fp.neg "+x.t+")")}
		}
	case token.XOR:
		if x.k == skBV {
			return sym{k: skBV, bk: x.bk, t: pc.def(x.sort(), "(bvnot "+x.t+")")}
		}
	}
	panic(unsupported{fmt.Sprintf("symUnop %s kind %d", op, x.k)})
}

// symConv converts symbolic scalar x to the basic kind dst.
func symConv(fr *frame, dst types.BasicKind, x sym) value {
	pc := fr.i.pc
	switch {
	case x.k == skBool:
		return x
	case x.k == skBV && bkIsInt(dst):
		sw, dw := bkWidth(x.bk), bkWidth(dst)
		var t string
		switch {
		case dw == sw:
			t = x.t
		case dw < sw:
			t = fmt.Sprintf("((_ extract %d 0) %s)", dw-1, x.t)
			// truncating back an extension: ((_ extract dw-1 0) ((_ zero_extend sw-dw) y)) = y
			for _, ext := range []string{"zero_extend", "sign_extend"} {
				pre := fmt.Sprintf("((_ %s %d) ", ext, sw-dw)
				if strings.HasPrefix(x.t, pre) && strings.HasSuffix(x.t, ")") {
					inner := x.t[len(pre) : len(x.t)-1]
					if !strings.ContainsAny(inner, " ()") || balanced(inner) {
						t = inner
					}
				}
			}
		case bkSigned(x.bk):
			t = fmt.Sprintf("((_ sign_extend %d) %s)", dw-sw, x.t)
		default:
			t = fmt.Sprintf("((_ zero_extend %d) %s)", dw-sw, x.t)
		}
		return sym{k: skBV, bk: dst, t: pc.def(bvSort(dw), t)}
	case x.k == skBV && dst == types.Float64:
		if pc.floatFP {
			o := "to_fp_unsigned"
			if bkSigned(x.bk) {
				o = "to_fp"
			}
			r := sym{k: skFP, bk: dst, t: pc.def(fpSort, "((_ "+o+" 11 53) RNE "+x.t+")")}
			w := bkWidth(x.bk)
			m := w
			ext := x.t
			if bkSigned(x.bk) {
				m = w - 1
				if w < 64 {
					ext = fmt.Sprintf("((_ sign_extend %d) %s)", 64-w, x.t)
				}
			} else if w < 64 {
				ext = fmt.Sprintf("((_ zero_extend %d) %s)", 64-w, x.t)
			}
			if m <= 52 {
				pc.setIntOrigin(r.t, pc.def(bvSort(64), ext), m)
			}
			return r
		}
		// exact real value of the integer (|v| < 2^53 assumed for exactness; recorded)
		pc.stats.Assumptions["int->float64 conversions are exact (|v| < 2^53)"] = true
		var t string
		if bkSigned(x.bk) {
			w := bkWidth(x.bk)
			t = fmt.Sprintf("(to_real (ite (bvslt %s %s) (- (bv2int %s) %s) (bv2int %s)))", x.t, bvLit(0, w), x.t, new(big.Int).Lsh(big.NewInt(1), uint(w)).String(), x.t)
		} else {
			t = "(to_real (bv2int " + x.t + "))"
		}
		return sym{k: skReal, bk: dst, t: pc.def("Real", t)}
	case x.k == skInt && bkIsInt(dst):
		return sym{k: skInt, bk: dst, t: x.t}
	case x.k == skInt && dst == types.Float64:
		return sym{k: skReal, bk: dst, t: pc.def("Real", "(to_real "+x.t+")")}
	case x.k == skReal && dst == types.Float64:
		return x
	case x.k == skFP && dst == types.Float64:
		return x
	case x.k == skReal && bkIsInt(dst):
		// truncation toward zero
		pc.stats.Assumptions["float->int conversions of symbolic reals are in range of the target type"] = true
		t := "(ite (>= " + x.t + " 0.0) (to_int " + x.t + ") (- (to_int (- " + x.t + "))))"
		return sym{k: skInt, bk: dst, t: pc.def("Int", t)}
	case x.k == skFP && bkIsInt(dst) && pc.intOriginFits(x.t, bkWidth(dst)):
		// integer-valued float with a known in-range integer origin: exact, no FP reasoning
		io := pc.intOrig[x.t]
		w := bkWidth(dst)
		t := io.bv
		if w < 64 {
			t = fmt.Sprintf("((_ extract %d 0) %s)", w-1, io.bv)
		}
		return sym{k: skBV, bk: dst, t: pc.def(bvSort(w), t)}
	case x.k == skFP && bkIsInt(dst):
		o := "fp.to_ubv"
		if bkSigned(dst) {
			o = "fp.to_sbv"
		}
		w := bkWidth(dst)
		return sym{k: skBV, bk: dst, t: pc.def(bvSort(w), fmt.Sprintf("((_ %s %d) RTZ %s)", o, w, x.t))}
	}
	panic(unsupported{fmt.Sprintf("symConv kind %d (%s) -> %s", x.k, basicKindName(x.bk), basicKindName(dst))})
}

// eqTerm builds an equality formula between a symbolic integer and constant c.
func eqConst(x sym, c int64) string {
	switch x.k {
	case skBV:
		return "(= " + x.t + " " + bvLit(uint64(c), bkWidth(x.bk)) + ")"
	case skInt:
		return "(= " + x.t + " " + intLit(c) + ")"
	}
	panic(unsupported{"eqConst on non-integer"})
}

// inRange builds lo <= x < hi for a symbolic integer (0 <= lo <= hi < 2^62).
func inRange(x sym, lo, hi int64) string {
	switch x.k {
	case skBV:
		w := bkWidth(x.bk)
		t := x.t
		if w < 64 {
			if bkSigned(x.bk) {
				t = fmt.Sprintf("((_ sign_extend %d) %s)", 64-w, t)
			} else {
				t = fmt.Sprintf("((_ zero_extend %d) %s)", 64-w, t)
			}
		}
		if bkSigned(x.bk) {
			return "(and (bvsle " + bvLit(uint64(lo), 64) + " " + t + ") (bvslt " + t + " " + bvLit(uint64(hi), 64) + "))"
		}
		return "(and (bvule " + bvLit(uint64(lo), 64) + " " + t + ") (bvult " + t + " " + bvLit(uint64(hi), 64) + "))"
	case skInt:
		return "(and (<= " + intLit(lo) + " " + x.t + ") (< " + x.t + " " + intLit(hi) + "))"
	}
	panic(unsupported{"inRange on non-integer"})
}

// tableLookup returns elems[idx] for a symbolic index into a table of concrete scalars as one
// ITE term (no forking). ok=false when the table is not all-concrete scalars of one kind.
func tableLookup(fr *frame, elems []value, n int, at func(i int) value, idx sym) (value, bool) {
	if n == 0 || n > 1024 {
		return nil, false
	}
	bk := bkOfValue(at(0))
	if !bkIsInt(bk) {
		return nil, false
	}
	counts := map[uint64]int{}
	for i := 0; i < n; i++ {
		v := at(i)
		if isSym(v) || bkOfValue(v) != bk {
			return nil, false
		}
		counts[asU64(v)]++
	}
	pc := fr.i.pc
	if !pc.branch(inRange(idx, 0, int64(n))) {
		panic(goPanic{fmt.Sprintf("index out of range [symbolic] with length %d", n)})
	}
	var def uint64
	best := -1
	for v, c := range counts {
		if c > best || (c == best && v < def) {
			def, best = v, c
		}
	}
	w := bkWidth(bk)
	t := bvLit(def, w)
	for i := n - 1; i >= 0; i-- {
		v := asU64(at(i))
		if v == def {
			continue
		}
		t = "(ite " + eqConst(idx, int64(i)) + " " + bvLit(v, w) + " " + t + ")"
	}
	return sym{k: skBV, bk: bk, t: pc.def(bvSort(w), t)}, true
}

// concretizeInt forks over the feasible values of symbolic integer x in [lo,hi].
func concretizeInt(pc *pathCtx, x sym, lo, hi int64) int64 {
	if hi-lo > 64 {
		// wide range: enumerate the feasible values through solver models instead
		return pc.concretizeByModel(x.t, func(c int64) string { return eqConst(x, c) }, 48)
	}
	return pc.concretize(func(c int64) string { return eqConst(x, c) }, lo, hi)
}

// concreteOfKind builds a concrete Go value of basic kind bk from int64.
func concreteOfKind(bk types.BasicKind, c int64) value {
	switch bk {
	case types.Int:
		return int(c)
	case types.Int8:
		return int8(c)
	case types.Int16:
		return int16(c)
	case types.Int32:
		return int32(c)
	case types.Int64:
		return int64(c)
	case types.Uint:
		return uint(c)
	case types.Uint8:
		return uint8(c)
	case types.Uint16:
		return uint16(c)
	case types.Uint32:
		return uint32(c)
	case types.Uint64:
		return uint64(c)
	case types.Uintptr:
		return uintptr(c)
	}
	panic("concreteOfKind")
}

// indexValue resolves an index operand (possibly symbolic) against length n:
// forks on out-of-range (Go panic) and then on the concrete value.
func indexValue(fr *frame, idx value, n int) int {
	if s, ok := idx.(sym); ok {
		pc := fr.i.pc
		if !pc.branch(inRange(s, 0, int64(n))) {
			panic(goPanic{fmt.Sprintf("index out of range [symbolic] with length %d", n)})
		}
		return int(concretizeInt(pc, s, 0, int64(n)-1))
	}
	i := asInt64(idx)
	if i < 0 || i >= int64(n) {
		panic(goPanic{fmt.Sprintf("index out of range [%d] with length %d", i, n)})
	}
	return int(i)
}

// boundValue resolves a slice bound operand in [lo, hi] inclusive.
func boundValue(fr *frame, b value, lo, hi int64, what string) int64 {
	if s, ok := b.(sym); ok {
		pc := fr.i.pc
		if !pc.branch(inRange(s, lo, hi+1)) {
			panic(goPanic{fmt.Sprintf("slice bounds out of range [%s symbolic] with capacity %d", what, hi)})
		}
		return concretizeInt(pc, s, lo, hi)
	}
	i := asInt64(b)
	if i < lo || i > hi {
		panic(goPanic{fmt.Sprintf("slice bounds out of range [%s%d] with capacity/length %d (low %d)", what, i, hi, lo)})
	}
	return i
}

// ---- integer-valued floats (FInt): floats known to equal an exactly representable integer ----

type intOrigin struct {
	bv   string // signed 64-bit bit-vector term with the same value
	bits int    // magnitude bound: |v| < 2^bits, bits <= 52
}

func (pc *pathCtx) setIntOrigin(fpTerm, bv string, bits int) {
	if pc.intOrig == nil {
		pc.intOrig = map[string]intOrigin{}
	}
	pc.intOrig[fpTerm] = intOrigin{bv, bits}
}

func (pc *pathCtx) intOriginFits(fpTerm string, dstWidth int) bool {
	io, ok := pc.intOrig[fpTerm]
	return ok && io.bits < dstWidth
}

// intLike returns the integer origin of a float operand (symbolic with a recorded origin, or a
// concrete integer-valued float of magnitude < 2^52).
func intLike(pc *pathCtx, v value) (intOrigin, bool) {
	switch x := v.(type) {
	case sym:
		if x.k == skFP {
			io, ok := pc.intOrig[x.t]
			return io, ok
		}
	case float64:
		if x == math.Trunc(x) && math.Abs(x) < 1<<52 && !(x == 0 && math.Signbit(x)) {
			i := int64(x)
			m := 0
			for a := uint64(math.Abs(x)); a != 0; a >>= 1 {
				m++
			}
			return intOrigin{bvLit(uint64(i), 64), m}, true
		}
	}
	return intOrigin{}, false
}

func intLikeBinop(pc *pathCtx, op token.Token, x, y value) (value, bool) {
	a, ok1 := intLike(pc, x)
	b, ok2 := intLike(pc, y)
	if !ok1 || !ok2 {
		return nil, false
	}
	mk := func(bvop string, bits int) (value, bool) {
		if bits > 52 {
			return nil, false
		}
		bv := pc.def(bvSort(64), "("+bvop+" "+a.bv+" "+b.bv+")")
		t := pc.def(fpSort, "((_ to_fp 11 53) RNE "+bv+")")
		pc.setIntOrigin(t, bv, bits)
		return sym{k: skFP, bk: types.Float64, t: t}, true
	}
	max := a.bits
	if b.bits > max {
		max = b.bits
	}
	switch op {
	case token.ADD:
		return mk("bvadd", max+1)
	case token.SUB:
		return mk("bvsub", max+1)
	case token.MUL:
		return mk("bvmul", a.bits+b.bits)
	case token.EQL:
		return mkBool(pc, "(= "+a.bv+" "+b.bv+")"), true
	case token.NEQ:
		return mkBool(pc, "(not (= "+a.bv+" "+b.bv+"))"), true
	case token.LSS:
		return mkBool(pc, "(bvslt "+a.bv+" "+b.bv+")"), true
	case token.LEQ:
		return mkBool(pc, "(bvsle "+a.bv+" "+b.bv+")"), true
	case token.GTR:
		return mkBool(pc, "(bvsgt "+a.bv+" "+b.bv+")"), true
	case token.GEQ:
		return mkBool(pc, "(bvsge "+a.bv+" "+b.bv+")"), true
	}
	return nil, false
}

func balanced(s string) bool {
	d := 0
	for _, c := range s {
		switch c {
		case '(':
			d++
		case ')':
			d--
			if d < 0 {
				return false
			}
		}
	}
	return d == 0 && strings.HasPrefix(s, "(")
}
