package interp

// Harness intrinsics (vf*) and sym-aware replacements for std-lib functions.

import (
	"fmt"
	"go/token"
	"go/types"
	"math"
	"math/big"
	"math/bits"
	"strconv"
	"strings"

	"golang.org/x/tools/go/ssa"
)

var vfIntrinsics map[string]externalFn

func init() {
	vfIntrinsics = map[string]externalFn{
		"vfU8":        func(fr *frame, a []value) value { return vfNondetInt(fr, a, types.Uint8) },
		"vfU16":       func(fr *frame, a []value) value { return vfNondetInt(fr, a, types.Uint16) },
		"vfU32":       func(fr *frame, a []value) value { return vfNondetInt(fr, a, types.Uint32) },
		"vfU64":       func(fr *frame, a []value) value { return vfNondetInt(fr, a, types.Uint64) },
		"vfI32":       func(fr *frame, a []value) value { return vfNondetInt(fr, a, types.Int32) },
		"vfI64":       func(fr *frame, a []value) value { return vfNondetInt(fr, a, types.Int64) },
		"vfInt":       func(fr *frame, a []value) value { return vfNondetInt(fr, a, types.Int) },
		"vfBool":      vfNondetBool,
		"vfReal":      vfNondetReal,
		"vfF64":       vfNondetF64,
		"vfBytes":     vfNondetBytes,
		"vfString":    vfNondetString,
		"vfAssume":    vfAssume,
		"vfAssert":    vfAssert,
		"vfReach":     vfReach,
		"vfAnd":       func(fr *frame, a []value) value { return boolOp(fr, token.AND, a[0], a[1]) },
		"vfOr":        func(fr *frame, a []value) value { return boolOp(fr, token.OR, a[0], a[1]) },
		"vfNot":       vfNot,
		"vfImplies":   vfImplies,
		"vfIteF":      vfIte,
		"vfIteI":      vfIte,
		"vfIteU64":    vfIte,
		"vfWatchBegin": func(fr *frame, a []value) value {
			pc := fr.i.pc
			pc.watching = true
			pc.fresh = map[*value]bool{}
			pc.freshMaps = map[interface{}]bool{}
			if pc.allowed == nil {
				pc.allowed = map[*value]bool{}
			}
			return nil
		},
		"vfWatchEnd":   func(fr *frame, a []value) value { fr.i.pc.watching = false; return nil },
		"vfAllowWrites": vfAllowWrites,
		"vfAllocLimit": func(fr *frame, a []value) value { fr.i.pc.allocLimit = asInt64(a[0]); return nil },
		"vfDisjoint":   vfDisjoint,
		"vfNote":       func(fr *frame, a []value) value { fr.i.pc.stats.Assumptions[a[0].(string)] = true; return nil },
		"vfFPMode":     func(fr *frame, a []value) value { fr.i.pc.floatFP = a[0].(bool); return nil },
		"vfSymbolic":   func(fr *frame, a []value) value { return !fr.i.pc.concrete },
		"vfSameBits":   vfSameBits,
		"vfIsConcrete": func(fr *frame, a []value) value { return !containsSym(a[0]) },
		"vfUF1":        vfUF,
		"vfUF2":        vfUF,
		"vfUF4":        vfUF,
		"vfUF6":        vfUF,
		"vfWktNum":     vfWktNum,
		"vfSnapshot":   vfSnapshot,
		"vfUnchanged":  vfUnchanged,
	}
	for k, v := range map[string]externalFn{
		"math.Float64bits":     symFloat64bits,
		"math.Float64frombits": symFloat64frombits,
		"math.Abs":             symAbs,
		"math.Sqrt":            symSqrt,
		"math.Floor":           symFloor,
		"math.Ceil":            symCeil,
		"math.Trunc":           symTrunc,
		"math.Min":             symMin,
		"math.Max":             symMax,
		"math.IsNaN":           symIsNaN,
		"math.IsInf":           symIsInf,
		"math.Nextafter":       symNextafter,
		"math.Round":           symRound,
		"math.Signbit":         symSignbit,
		"math.Sin":             symTransc("sin", math.Sin),
		"math.Cos":             symTransc("cos", math.Cos),
		"math.Tan":             symTransc("tan", math.Tan),
		"math.Atan":            symTransc("atan", math.Atan),
		"math.Asin":            symTransc("asin", math.Asin),
		"math.Exp":             symTransc("exp", math.Exp),
		"math.Log":             symTransc("log", math.Log),
		"math.Sinh":            symTransc("sinh", math.Sinh),
		"math.Atan2":           symTransc2("atan2", math.Atan2),
		"math.Pow":             symTransc2("pow", math.Pow),
		"math.Mod":             symTransc2("fmod", math.Mod),
		"math.Hypot":           symTransc2("hypot", math.Hypot),
		"math/bits.LeadingZeros32":  symLeadingZeros32,
		"math/bits.LeadingZeros64":  symLeadingZeros64,
		"math/bits.TrailingZeros32": symTrailingZeros32,
		"math/bits.Len32":           symLen32,
		"math/bits.Len64":           symLen64,
		"regexp.MustCompile":        stubRegexpMustCompile,
		"strconv.ParseFloat":        stubParseFloat,
		"(*regexp.Regexp).FindAllStringSubmatchIndex": stubFindAllStringSubmatchIndex,
		"sort.Slice":                stubSortSlice,
		"sort.SliceStable":          stubSortSlice,
		"fmt.Errorf":                stubErrorf,
		"fmt.Sprintf":               stubSprintf,
		"fmt.Sprint":                stubSprintf,
		"fmt.Fprintf":               stubFprintf,
		"errors.New":                nil, // real code
		"github.com/paulmach/orb/encoding/mvt/vectortile.sovVectorTile": stubSov,
		"github.com/gogo/protobuf/proto.SizeOfInternalExtension":          func(fr *frame, a []value) value { return 0 },
		"github.com/gogo/protobuf/proto.EncodeInternalExtensionBackwards": func(fr *frame, a []value) value { return tuple{0, iface{}} },
		"github.com/gogo/protobuf/proto.RegisterType":        stubNop,
		"github.com/gogo/protobuf/proto.RegisterEnum":        stubNop,
		"github.com/gogo/protobuf/proto.RegisterFile":        stubNop,
		"github.com/gogo/protobuf/proto.RegisterExtension":   stubNop,
		"(*sync.Mutex).Lock":                                 stubNop,
		"(*sync.Mutex).Unlock":                               stubNop,
		"(*sync.RWMutex).Lock":                               stubNop,
		"(*sync.RWMutex).Unlock":                             stubNop,
		"(*sync.RWMutex).RLock":                              stubNop,
		"(*sync.RWMutex).RUnlock":                            stubNop,
		"(*sync.Once).Do":                                    stubOnceDo,
		"(*sync.Pool).Get":                                   stubPoolGet,
		"(*sync.Pool).Put":                                   stubPoolPut,
		"internal/stringslite.Clone":                         func(fr *frame, a []value) value { return a[0] },
		"strings.Clone":                                      func(fr *frame, a []value) value { return a[0] },
		"internal/bytealg.IndexByte":                         extIndexByte,
		"internal/bytealg.IndexByteString":                   extIndexByteString,
		"internal/bytealg.Equal":                             extBytesEqual,
		"internal/bytealg.MakeNoZero":                        extMakeNoZero,
		"internal/bytealg.Count":                             extCount,
		"internal/bytealg.CountString":                       extCountString,
		"bytes.Equal":                                        extBytesEqual,
		"bytes.IndexByte":                                    extIndexByte,
		"strings.IndexByte":                                  extIndexByteString,
		"internal/stringslite.IndexByte":                     extIndexByteString,
		"unicode/utf8.DecodeRuneInString":                    nil,
		"strings.Index":                                      nil,
		"strings.Count":                                      nil,
		"strings.EqualFold":                                  nil,
		"strings.Replace":                                    nil,
		"strings.ToLower":                                    nil,
		"strconv.Atoi":                                       nil,
		"strconv.Itoa":                                       nil,
		"math.Ldexp":                                         nil,
		"math.Copysign":                                      nil,
		"math.Float32bits":                                   nil,
		"math.Float32frombits":                               nil,
		"sort.Ints":                                          nil,
		"sort.Strings":                                       nil,
		"sort.Float64s":                                      nil,
	} {
		if v == nil {
			switch k {
			case "math.Ldexp", "math.Copysign", "math.Float32bits", "math.Float32frombits":
				continue // keep interp's own
			}
			delete(externals, k)
			continue
		}
		externals[k] = v
	}
}

func stubNop(fr *frame, a []value) value { return nil }

// A small regular-expression interpreter for the patterns encoding/wkt uses (the regexp package
// itself is not executed): literals, escapes (\\( \\) \\s \\t ...), character classes, '*', and
// capturing groups; leftmost-first backtracking semantics like Go's regexp for this subset. The
// subject may contain symbolic bytes: every byte comparison is a (cached) path decision.
type reNode struct {
	kind  int // 0 literal/class (set), 1 group
	set   []byte
	star  bool
	group int // capture index for kind 1
	sub   []reNode
}

var reSpace = []byte{' ', '\t', '\n', '\v', '\f', '\r'}

func reParse(expr string) ([]reNode, int, bool) {
	pos := 0
	ngroups := 0
	var parseSeq func(inGroup bool) ([]reNode, bool)
	escape := func(c byte) ([]byte, bool) {
		switch c {
		case 's':
			return reSpace, true
		case 't':
			return []byte{'\t'}, true
		case 'n':
			return []byte{'\n'}, true
		case 'd':
			return []byte("0123456789"), true
		case '(', ')', '[', ']', '\\', '.', '*', '+', '?', '|', ',', '{', '}', '^', '$':
			return []byte{c}, true
		}
		return nil, false
	}
	parseSeq = func(inGroup bool) ([]reNode, bool) {
		var seq []reNode
		for pos < len(expr) {
			c := expr[pos]
			var n reNode
			switch c {
			case ')':
				if !inGroup {
					return nil, false
				}
				pos++
				return seq, true
			case '(':
				pos++
				ngroups++
				g := ngroups
				sub, ok := parseSeq(true)
				if !ok {
					return nil, false
				}
				n = reNode{kind: 1, group: g, sub: sub}
			case '[':
				pos++
				var set []byte
				for pos < len(expr) && expr[pos] != ']' {
					if expr[pos] == '\\' && pos+1 < len(expr) {
						e, ok := escape(expr[pos+1])
						if !ok {
							return nil, false
						}
						set = append(set, e...)
						pos += 2
						continue
					}
					if expr[pos] == '-' || expr[pos] == '^' {
						return nil, false // ranges / negation not supported
					}
					set = append(set, expr[pos])
					pos++
				}
				if pos >= len(expr) {
					return nil, false
				}
				pos++
				n = reNode{set: set}
			case '\\':
				if pos+1 >= len(expr) {
					return nil, false
				}
				e, ok := escape(expr[pos+1])
				if !ok {
					return nil, false
				}
				pos += 2
				n = reNode{set: e}
			case '*', '+', '?', '|', '.', '{', '^', '$':
				return nil, false
			default:
				pos++
				n = reNode{set: []byte{c}}
			}
			if pos < len(expr) && expr[pos] == '*' {
				if n.kind == 1 {
					return nil, false
				}
				n.star = true
				pos++
			}
			seq = append(seq, n)
		}
		if inGroup {
			return nil, false
		}
		return seq, true
	}
	seq, ok := parseSeq(false)
	return seq, ngroups, ok
}

func stubFindAllStringSubmatchIndex(fr *frame, a []value) value {
	re := (*a[0].(*value)).(structure)
	expr, _ := re[0].(string)
	nodes, ngroups, ok := reParse(expr)
	if !ok {
		panic(unsupported{"regexp pattern outside the supported subset: " + expr})
	}
	s := toSymString(a[1]).b
	pc := fr.i.pc
	is := func(i int, c byte) bool {
		if i >= len(s) {
			return false
		}
		switch b := s[i].(type) {
		case uint8:
			return b == c
		case sym:
			return pc.branch("(= " + b.t + " " + bvLit(uint64(c), 8) + ")")
		}
		return false
	}
	inSet := func(i int, set []byte) bool {
		for _, c := range set {
			if is(i, c) {
				return true
			}
		}
		return false
	}
	var matchSeq func(seq []reNode, i int, caps []int, k func(int, []int) (int, []int, bool)) (int, []int, bool)
	matchSeq = func(seq []reNode, i int, caps []int, k func(int, []int) (int, []int, bool)) (int, []int, bool) {
		if len(seq) == 0 {
			return k(i, caps)
		}
		n := seq[0]
		rest := seq[1:]
		if n.kind == 1 {
			start := i
			return matchSeq(n.sub, i, caps, func(j int, c2 []int) (int, []int, bool) {
				c3 := append([]int{}, c2...)
				c3[2*n.group] = start
				c3[2*n.group+1] = j
				return matchSeq(rest, j, c3, k)
			})
		}
		if n.star {
			// greedy: take as many as possible, then back off
			j := i
			for j < len(s) && inSet(j, n.set) {
				j++
			}
			for ; j >= i; j-- {
				if e, c, ok := matchSeq(rest, j, caps, k); ok {
					return e, c, true
				}
			}
			return 0, nil, false
		}
		if i < len(s) && inSet(i, n.set) {
			return matchSeq(rest, i+1, caps, k)
		}
		return 0, nil, false
	}
	var res []value
	for i := 0; i <= len(s); {
		caps := make([]int, 2*(ngroups+1))
		for k := range caps {
			caps[k] = -1
		}
		end, c, ok := matchSeq(nodes, i, caps, func(j int, c []int) (int, []int, bool) { return j, c, true })
		if ok {
			c[0], c[1] = i, end
			m := make([]value, len(c))
			for k := range c {
				m[k] = c[k]
			}
			res = append(res, m)
			if end > i {
				i = end
			} else {
				i++
			}
		} else {
			i++
		}
	}
	pc.stats.StubsHit["regexp-interpreter:"+expr]++
	if len(res) == 0 {
		return []value(nil)
	}
	return res
}

// ---- number tokens for text codecs (WKT) ----
// vfWktNum(name, L) is a float64 whose %g spelling is a symbolic byte string of length L drawn
// from the %g output grammar -?d+(.d+)? | -?d(.d+)?e[+-]dd. fmt.Fprintf("%g") emits exactly these
// bytes and strconv.ParseFloat returns the value when handed exactly these bytes (stub contract:
// the text<->float64 bijection of a single number is std-lib behaviour and is assumed).

type numToken struct {
	val   sym
	bytes []value
}

func numTemplates(L int) []string {
	// class strings: d digit, - minus, . point, e exponent, s sign
	var out []string
	digits := func(n int) string { return strings.Repeat("d", n) }
	for neg := 0; neg <= 1; neg++ {
		pre := ""
		if neg == 1 {
			pre = "-"
		}
		// plain: d+ or d+.d+
		for i := 1; i <= L; i++ {
			if len(pre)+i == L {
				out = append(out, pre+digits(i))
			}
			for f := 1; len(pre)+i+1+f <= L; f++ {
				if len(pre)+i+1+f == L {
					out = append(out, pre+digits(i)+"."+digits(f))
				}
			}
		}
		// exponent: d(.d+)?e[+-]dd
		if len(pre)+1+4 == L {
			out = append(out, pre+"desdd")
		}
		for f := 1; len(pre)+1+1+f+4 <= L; f++ {
			if len(pre)+2+f+4 == L {
				out = append(out, pre+"d."+digits(f)+"esdd")
			}
		}
	}
	return out
}

func vfWktNum(fr *frame, a []value) value {
	pc := fr.i.pc
	name := a[0].(string)
	L := int(asInt64(a[1]))
	if pc.concrete {
		return vfNondetReal(fr, a[:1])
	}
	r := vfNondetReal(fr, a[:1]).(sym)
	bs := vfNondetBytes(fr, []value{name + ".text", L}).([]value)
	var alts []string
	for _, tpl := range numTemplates(L) {
		var conj []string
		for i, c := range tpl {
			b := bs[i].(sym).t
			switch c {
			case 'd':
				conj = append(conj, "(bvuge "+b+" #x30)", "(bvule "+b+" #x39)")
			case '-':
				conj = append(conj, "(= "+b+" #x2d)")
			case '.':
				conj = append(conj, "(= "+b+" #x2e)")
			case 'e':
				conj = append(conj, "(= "+b+" #x65)")
			case 's':
				conj = append(conj, "(or (= "+b+" #x2b) (= "+b+" #x2d))")
			}
		}
		alts = append(alts, "(and "+strings.Join(conj, " ")+")")
	}
	if len(alts) == 0 {
		panic(unsupported{"vfWktNum: no spelling of that length"})
	}
	pc.assert("(or " + strings.Join(alts, " ") + " false)")
	pc.numTokens = append(pc.numTokens, numToken{val: r, bytes: bs})
	pc.stats.Assumptions["number text: fmt %g and strconv.ParseFloat are inverse on a single number (std-lib contract, assumed); spellings range over the %g grammar with symbolic bytes"] = true
	return r
}

func stubParseFloat(fr *frame, a []value) value {
	pc := fr.i.pc
	mkErr := func() value { return tuple{float64(0), fr.i.newError("strconv.ParseFloat: invalid syntax")} }
	switch s := a[0].(type) {
	case string:
		f, err := strconv.ParseFloat(s, int(asInt64(a[1])))
		if err != nil {
			return tuple{f, fr.i.newError(err.Error())}
		}
		return tuple{f, iface{}}
	case symString:
		for _, tk := range pc.numTokens {
			if len(tk.bytes) != len(s.b) {
				continue
			}
			same := true
			for i := range s.b {
				x, ok1 := s.b[i].(sym)
				y, ok2 := tk.bytes[i].(sym)
				if !ok1 || !ok2 {
					same = false
					break
				}
				if x.t != y.t {
					// not the same term: the same byte only if the solver proves it
					if pc.solver.CheckWith("(not (= "+x.t+" "+y.t+"))") != "unsat" {
						same = false
						break
					}
				}
			}
			if same {
				return tuple{tk.val, iface{}}
			}
		}
		if len(pc.numTokens) > 0 {
			// some other byte string than an emitted number: by the stub contract this is not
			// the number that was printed
			return mkErr()
		}
		// hostile-input harnesses: the result is arbitrary
		ok := vfNondetBool(fr, []value{"parsefloat.ok"})
		r := vfNondetReal(fr, []value{"parsefloat.value"})
		if pc.branch(boolTerm(ok)) {
			return tuple{r, iface{}}
		}
		return mkErr()
	}
	panic(unsupported{"strconv.ParseFloat argument"})
}

// sovVectorTile(x) = (bits.Len64(x|1)+6)/7, the varint size: for a symbolic argument an ITE over
// the nine thresholds (the generic encoding needs a 64-bit division by 7). Validated against the
// real formula by harness vfC03Sov.
func stubSov(fr *frame, a []value) value {
	switch x := a[0].(type) {
	case uint64:
		return (bits.Len64(x|1) + 6) / 7
	case sym:
		t := bvLit(10, 64)
		for n := 9; n >= 1; n-- {
			t = "(ite (bvult " + x.t + " " + bvLit(uint64(1)<<(7*uint(n)), 64) + ") " + bvLit(uint64(n), 64) + " " + t + ")"
		}
		fr.i.pc.stats.StubsHit["model:sovVectorTile"]++
		return sym{k: skBV, bk: types.Int, t: fr.i.pc.def(bvSort(64), t)}
	}
	panic(unsupported{"sovVectorTile"})
}

// sort.Slice: insertion sort that drives the real less closure (the real implementation goes
// through reflectlite.Swapper, which is unsafe). Ties may come out in a different order than
// pdqsort produces.
func stubSortSlice(fr *frame, a []value) value {
	x, ok := a[0].(iface)
	if !ok {
		panic(unsupported{"sort.Slice argument"})
	}
	s, ok := x.v.([]value)
	if !ok {
		panic(unsupported{"sort.Slice on non-slice"})
	}
	less := func(i, j int) bool {
		r := call(fr.i, fr, token.NoPos, a[1], []value{i, j})
		switch b := r.(type) {
		case bool:
			return b
		case sym:
			return fr.i.pc.branch(b.t)
		}
		panic(unsupported{"sort.Slice less result"})
	}
	for i := 1; i < len(s); i++ {
		for j := i; j > 0 && less(j, j-1); j-- {
			if fr.i.pc.watching {
				fr.i.pc.checkStore(fr, &s[j], nil)
			}
			s[j], s[j-1] = s[j-1], s[j]
		}
	}
	return nil
}

// regexp.MustCompile: an opaque *Regexp whose first field holds the expression text
// (matching is provided by dedicated stubs for the patterns orb uses).
func stubRegexpMustCompile(fr *frame, a []value) value {
	rp := fr.i.prog.ImportedPackage("regexp")
	if rp == nil {
		panic(unsupported{"regexp package not loaded"})
	}
	t := rp.Type("Regexp").Object().Type()
	var cell value = zero(t)
	cell.(structure)[0] = a[0]
	return &cell
}

func stubOnceDo(fr *frame, a []value) value {
	// execute f every time the Once is zero: model done flag in the struct's first field
	once := a[0].(*value)
	st := (*once).(structure)
	if d, ok := st[0].(structure); ok { // atomic.Uint32{v uint32} (go1.22+: done atomic.Uint32)
		_ = d
	}
	key := fmt.Sprintf("%p", once)
	if fr.i.onceDone == nil {
		fr.i.onceDone = map[string]bool{}
	}
	if fr.i.onceDone[key] {
		return nil
	}
	fr.i.onceDone[key] = true
	call(fr.i, fr, token.NoPos, a[1], nil)
	return nil
}

// sync.Pool model: a LIFO per pool (one of the behaviours the real pool may show: Get returns the
// object most recently Put, or New() when there is none). An object handed out by Get is owned by
// the caller until it is Put back, so stores into it are not stores to shared memory: its cells are
// added to the write monitor's allowed set.
func stubPoolGet(fr *frame, a []value) value {
	pc := fr.i.pc
	key := a[0].(*value)
	if l := pc.pools[key]; len(l) > 0 {
		v := l[len(l)-1]
		pc.pools[key] = l[:len(l)-1]
		vfAllowWrites(fr, []value{v})
		if x, ok := v.(iface); ok {
			if pv, ok := x.v.(*value); ok && pv != nil {
				vfAllowWrites(fr, []value{*pv})
			}
		}
		return v
	}
	pool := (*key).(structure)
	newFn := pool[len(pool)-1]
	if f, ok := newFn.(*closure); ok && f != nil {
		return call(fr.i, fr, token.NoPos, f, nil)
	}
	if f, ok := newFn.(*ssa.Function); ok && f != nil {
		return call(fr.i, fr, token.NoPos, f, nil)
	}
	return iface{}
}

func stubPoolPut(fr *frame, a []value) value {
	pc := fr.i.pc
	if pc.pools == nil {
		pc.pools = map[*value][]value{}
	}
	key := a[0].(*value)
	pc.pools[key] = append(pc.pools[key], a[1])
	return nil
}

func (pc *pathCtx) uniqueName(name string) string {
	n := pc.names[name]
	pc.names[name] = n + 1
	if n == 0 {
		return name
	}
	return fmt.Sprintf("%s#%d", name, n)
}

func smtName(name string) string {
	var sb strings.Builder
	sb.WriteString("n_")
	for _, c := range name {
		switch {
		case c >= 'a' && c <= 'z', c >= 'A' && c <= 'Z', c >= '0' && c <= '9', c == '_':
			sb.WriteRune(c)
		default:
			fmt.Fprintf(&sb, "!%x!", c)
		}
	}
	return sb.String()
}

func witnessInt(pc *pathCtx, name string, bk types.BasicKind) value {
	s, ok := pc.witness[name]
	var u uint64
	if ok {
		bi, ok2 := new(big.Int).SetString(s, 0)
		if !ok2 {
			panic(engineError{"bad witness int " + name + "=" + s})
		}
		if bi.Sign() < 0 {
			u = uint64(bi.Int64())
		} else {
			u = bi.Uint64()
		}
	}
	return concreteOfKind(bk, int64(u))
}

func vfNondetInt(fr *frame, a []value, bk types.BasicKind) value {
	pc := fr.i.pc
	name := pc.uniqueName(a[0].(string))
	if pc.concrete {
		return witnessInt(pc, name, bk)
	}
	t := smtName(name)
	w := bkWidth(bk)
	pc.declare(t, bvSort(w))
	pc.nondets = append(pc.nondets, NondetVar{Name: name, Sort: fmt.Sprintf("bv%d", w), Term: t, Kind: basicKindName(bk)})
	return sym{k: skBV, bk: bk, t: t}
}

func vfNondetBool(fr *frame, a []value) value {
	pc := fr.i.pc
	name := pc.uniqueName(a[0].(string))
	if pc.concrete {
		return pc.witness[name] == "true"
	}
	t := smtName(name)
	pc.declare(t, "Bool")
	pc.nondets = append(pc.nondets, NondetVar{Name: name, Sort: "bool", Term: t, Kind: "bool"})
	return sym{k: skBool, bk: types.Bool, t: t}
}

func parseWitnessFloat(s string) float64 {
	if strings.HasPrefix(s, "bits:") {
		u, err := strconv.ParseUint(s[5:], 0, 64)
		if err != nil {
			panic(engineError{"bad witness float " + s})
		}
		return math.Float64frombits(u)
	}
	if r, ok := new(big.Rat).SetString(s); ok {
		f, _ := r.Float64()
		return f
	}
	f, err := strconv.ParseFloat(s, 64)
	if err != nil {
		panic(engineError{"bad witness float " + s})
	}
	return f
}

func vfNondetReal(fr *frame, a []value) value {
	pc := fr.i.pc
	name := pc.uniqueName(a[0].(string))
	if pc.concrete {
		if s, ok := pc.witness[name]; ok {
			return parseWitnessFloat(s)
		}
		return float64(0)
	}
	t := smtName(name)
	pc.declare(t, "Real")
	pc.nondets = append(pc.nondets, NondetVar{Name: name, Sort: "real", Term: t, Kind: "float64"})
	return sym{k: skReal, bk: types.Float64, t: t}
}

func vfNondetF64(fr *frame, a []value) value {
	pc := fr.i.pc
	name := pc.uniqueName(a[0].(string))
	if pc.concrete {
		if s, ok := pc.witness[name]; ok {
			return parseWitnessFloat(s)
		}
		return float64(0)
	}
	t := smtName(name)
	pc.declare(t, bvSort(64))
	pc.nondets = append(pc.nondets, NondetVar{Name: name, Sort: "bv64", Term: t, Kind: "float64bits"})
	return sym{k: skFP, bk: types.Float64, t: "((_ to_fp 11 53) " + t + ")"}
}

func vfNondetBytes(fr *frame, a []value) value {
	pc := fr.i.pc
	base := a[0].(string)
	n := int(asInt64(a[1]))
	res := make([]value, n)
	for i := 0; i < n; i++ {
		res[i] = vfNondetInt(fr, []value{fmt.Sprintf("%s[%d]", base, i)}, types.Uint8)
	}
	pc.markFreshSlice(res)
	return res
}

func vfNondetString(fr *frame, a []value) value {
	b := vfNondetBytes(fr, a).([]value)
	return normString(symString{b})
}

func vfAssume(fr *frame, a []value) value {
	pc := fr.i.pc
	switch c := a[0].(type) {
	case bool:
		if !c {
			if pc.concrete {
				panic(targetPanic{"VFASSUME-FAILED"})
			}
			panic(pathEnd{"assume-false"})
		}
	case sym:
		if pc.solver.CheckWith(c.t) == "unsat" {
			panic(pathEnd{"assume-infeasible"})
		}
		pc.assert(c.t)
	}
	return nil
}

func vfAssert(fr *frame, a []value) value {
	pc := fr.i.pc
	id := a[0].(string)
	pc.stats.Obligations++
	pos := ""
	if fr.caller != nil {
		pos = fr.caller.fn.String()
	}
	switch c := a[1].(type) {
	case bool:
		if c {
			pc.stats.Discharged++
			return nil
		}
		if pc.concrete {
			pc.viol = append(pc.viol, Violation{Kind: "assert", ID: id, Msg: "assertion " + id + " failed", Pos: pos})
			panic(targetPanic{"VFASSERT:" + id})
		}
		r := pc.tryViolation("assert", id, "assertion "+id+" is false on a feasible path", pos, "")
		if r == "unknown" {
			pc.stats.UnknownObl++
		}
		panic(pathEnd{"assert-false"})
	case sym:
		r := pc.tryViolation("assert", id, "assertion "+id+" can be violated", pos, "(not "+c.t+")")
		switch r {
		case "unsat":
			pc.stats.Discharged++
		case "unknown":
			pc.stats.UnknownObl++
		}
		// continue under the assumption that it holds
		if pc.solver.CheckWith(c.t) == "unsat" {
			panic(pathEnd{"assert-always-false"})
		}
		pc.assert(c.t)
	}
	return nil
}

func vfReach(fr *frame, a []value) value {
	fr.i.pc.stats.Reaches[a[0].(string)]++
	return nil
}

func vfNot(fr *frame, a []value) value {
	switch c := a[0].(type) {
	case bool:
		return !c
	case sym:
		return symUnop(fr, token.NOT, c)
	}
	panic("vfNot")
}

func vfImplies(fr *frame, a []value) value {
	na := vfNot(fr, a[:1])
	return boolOp(fr, token.OR, na, a[1])
}

func boolOp(fr *frame, op token.Token, x, y value) value {
	xb, xc := x.(bool)
	yb, yc := y.(bool)
	if op == token.AND {
		if (xc && !xb) || (yc && !yb) {
			return false
		}
		if xc {
			return y
		}
		if yc {
			return x
		}
	} else {
		if (xc && xb) || (yc && yb) {
			return true
		}
		if xc {
			return y
		}
		if yc {
			return x
		}
	}
	return binopS(fr, op, types.Typ[types.Bool], x, y)
}

func vfIte(fr *frame, a []value) value {
	pc := fr.i.pc
	switch c := a[0].(type) {
	case bool:
		if c {
			return a[1]
		}
		return a[2]
	case sym:
		var k symKind
		var bk types.BasicKind
		if s, ok := a[1].(sym); ok {
			k, bk = s.k, s.bk
		} else if s, ok := a[2].(sym); ok {
			k, bk = s.k, s.bk
		} else {
			bk = bkOfValue(a[1])
			switch {
			case bk == types.Float64:
				k = skReal
				if pc.floatFP {
					k = skFP
				}
			case bk == types.Bool:
				k = skBool
			default:
				k = skBV
			}
		}
		if _, nf := nonFinite(a[1]); nf {
			panic(unsupported{"vfIte with non-finite constant"})
		}
		r := sym{k: k, bk: bk}
		r.t = pc.def(r.sort(), "(ite "+c.t+" "+termOf(a[1], k)+" "+termOf(a[2], k)+")")
		return r
	}
	panic("vfIte")
}

func vfAllowWrites(fr *frame, a []value) value {
	pc := fr.i.pc
	if pc.allowed == nil {
		pc.allowed = map[*value]bool{}
	}
	var walk func(v value)
	walk = func(v value) {
		switch x := v.(type) {
		case iface:
			walk(x.v)
		case []value:
			x = x[:cap(x)]
			for i := range x {
				pc.allowed[&x[i]] = true
			}
		case *value:
			if x != nil {
				pc.allowed[x] = true
			}
		}
	}
	walk(a[0])
	return nil
}

// reachableCells collects the addresses of all slice/pointer-reachable cells of v.
func reachableCells(v value, out map[*value]bool) {
	switch x := v.(type) {
	case iface:
		reachableCells(x.v, out)
	case []value:
		for i := range x {
			if out[&x[i]] {
				continue
			}
			out[&x[i]] = true
			reachableCells(x[i], out)
		}
	case *value:
		if x != nil && !out[x] {
			out[x] = true
			reachableCells(*x, out)
		}
	case structure:
		for _, e := range x {
			reachableCells(e, out)
		}
	case array:
		for _, e := range x {
			reachableCells(e, out)
		}
	}
}

func vfDisjoint(fr *frame, a []value) value {
	m1, m2 := map[*value]bool{}, map[*value]bool{}
	reachableCells(a[0], m1)
	reachableCells(a[1], m2)
	for p := range m1 {
		if m2[p] {
			return false
		}
	}
	return true
}

// vfSnapshot / vfUnchanged: deep structural snapshot of a value (terms compared syntactically).
func snapshotString(v value, seen map[*value]bool, sb *strings.Builder) {
	switch x := v.(type) {
	case iface:
		if x.t == nil {
			sb.WriteString("<nil-iface>")
			return
		}
		sb.WriteString("(" + x.t.String() + ":")
		snapshotString(x.v, seen, sb)
		sb.WriteString(")")
	case []value:
		if x == nil {
			sb.WriteString("nil[]")
			return
		}
		fmt.Fprintf(sb, "[%d:", len(x))
		for i := range x {
			snapshotString(x[i], seen, sb)
			sb.WriteString(",")
		}
		sb.WriteString("]")
	case *value:
		if x == nil {
			sb.WriteString("nilptr")
			return
		}
		if seen[x] {
			sb.WriteString("<cycle>")
			return
		}
		seen[x] = true
		sb.WriteString("&")
		snapshotString(*x, seen, sb)
	case structure:
		sb.WriteString("{")
		for _, e := range x {
			snapshotString(e, seen, sb)
			sb.WriteString(";")
		}
		sb.WriteString("}")
	case array:
		sb.WriteString("[")
		for _, e := range x {
			snapshotString(e, seen, sb)
			sb.WriteString(";")
		}
		sb.WriteString("]")
	case sym:
		sb.WriteString(x.t)
	case symString:
		sb.WriteString("symstr(")
		for _, e := range x.b {
			snapshotString(e, seen, sb)
		}
		sb.WriteString(")")
	case float64:
		fmt.Fprintf(sb, "f%x", math.Float64bits(x))
	case *closure, *ssa.Function:
		sb.WriteString("<func>")
	default:
		fmt.Fprintf(sb, "%T:%v", x, x)
	}
}

func vfSnapshot(fr *frame, a []value) value {
	var sb strings.Builder
	snapshotString(a[0], map[*value]bool{}, &sb)
	return sb.String()
}

func vfUnchanged(fr *frame, a []value) value {
	var sb strings.Builder
	snapshotString(a[0], map[*value]bool{}, &sb)
	return sb.String() == a[1].(string)
}

// vfSameBits(a, b float64) bool : bit-identical (NaN payloads included) in FP/bits model;
// plain equality in the real model.
func vfSameBits(fr *frame, a []value) value {
	pc := fr.i.pc
	x, y := a[0], a[1]
	_, xs := x.(sym)
	_, ys := y.(sym)
	if !xs && !ys {
		return math.Float64bits(x.(float64)) == math.Float64bits(y.(float64))
	}
	isBits := func(v value) bool {
		s, ok := v.(sym)
		if !ok {
			return true
		}
		return s.k == skFP && strings.HasPrefix(s.t, "((_ to_fp 11 53) ") && !strings.Contains(s.t[17:], " ")
	}
	if sx, ok := x.(sym); ok && sx.k == skReal {
		return binopS(fr, token.EQL, types.Typ[types.Float64], x, y)
	}
	if sy, ok := y.(sym); ok && sy.k == skReal {
		return binopS(fr, token.EQL, types.Typ[types.Float64], x, y)
	}
	if a, ok := intLike(pc, x); ok {
		if b, ok := intLike(pc, y); ok {
			return mkBool(pc, "(= "+a.bv+" "+b.bv+")")
		}
	}
	if isBits(x) && isBits(y) {
		bx := symFloat64bits(fr, []value{x})
		by := symFloat64bits(fr, []value{y})
		return binopS(fr, token.EQL, types.Typ[types.Uint64], bx, by)
	}
	// values that went through IEEE operations: SMT-LIB identity on FloatingPoint
	// (distinguishes +0/-0, identifies all NaNs: bit-equality up to the NaN payload)
	pc.stats.Assumptions["bit-equality of values produced by float operations is decided up to the NaN payload (SMT-LIB has a single NaN)"] = true
	return mkBool(pc, "(= "+termOf(x, skFP)+" "+termOf(y, skFP)+")")
}

// vfUFn(name string, args ...float64) float64: uninterpreted function application.
func vfUF(fr *frame, a []value) value {
	pc := fr.i.pc
	name := a[0].(string)
	args := a[1:]
	anySym := false
	for _, x := range args {
		if isSym(x) {
			anySym = true
		}
	}
	if pc.concrete || !anySym {
		// deterministic concrete stand-in: a fixed "random-looking" polynomial of the arguments
		acc := 0.0
		for i, x := range args {
			f, ok := x.(float64)
			if !ok {
				panic(unsupported{"vfUF mixed concrete/symbolic"})
			}
			acc += f * float64(i+3) * 0.37
			acc = acc*1.000001 + float64(len(name))
		}
		return math.Abs(acc)
	}
	fn := "uf_" + name + fmt.Sprint(len(args))
	pc.declareUF(fn, len(args))
	s := "(" + fn
	for _, x := range args {
		s += " " + termOf(x, skReal)
	}
	s += ")"
	return sym{k: skReal, bk: types.Float64, t: pc.def("Real", s)}
}

func (pc *pathCtx) declareUF(fn string, n int) {
	if pc.ufs == nil {
		pc.ufs = map[string]bool{}
	}
	if pc.ufs[fn] {
		return
	}
	pc.ufs[fn] = true
	s := "(declare-fun " + fn + " ("
	for i := 0; i < n; i++ {
		s += "Real "
	}
	s += ") Real)"
	pc.solver.Send(s)
}

// ---- math ----

func symFloat64bits(fr *frame, a []value) value {
	pc := fr.i.pc
	switch x := a[0].(type) {
	case float64:
		return math.Float64bits(x)
	case sym:
		if x.k == skFP {
			if strings.HasPrefix(x.t, "((_ to_fp 11 53) ") && !strings.Contains(x.t[17:], " ") {
				return sym{k: skBV, bk: types.Uint64, t: strings.TrimSuffix(x.t[17:], ")")}
			}
			// general: fresh bits with to_fp(bits) == x (NaN payload unconstrained)
			n := pc.fresh_("fbits")
			pc.declare(n, bvSort(64))
			pc.assert("(= ((_ to_fp 11 53) " + n + ") " + x.t + ")")
			return sym{k: skBV, bk: types.Uint64, t: n}
		}
		if x.k == skReal {
			panic(unsupported{"math.Float64bits of a symbolic real"})
		}
	}
	panic(unsupported{fmt.Sprintf("Float64bits %T", a[0])})
}

func symFloat64frombits(fr *frame, a []value) value {
	switch x := a[0].(type) {
	case uint64:
		return math.Float64frombits(x)
	case sym:
		return sym{k: skFP, bk: types.Float64, t: "((_ to_fp 11 53) " + fr.i.pc.defAtom(bvSort(64), x.t) + ")"}
	}
	panic(unsupported{"Float64frombits"})
}

func realUn(fr *frame, x sym, expr string) value {
	return sym{k: skReal, bk: types.Float64, t: fr.i.pc.def("Real", expr)}
}

func symAbs(fr *frame, a []value) value {
	switch x := a[0].(type) {
	case float64:
		return math.Abs(x)
	case sym:
		if x.k == skReal {
			return realUn(fr, x, "(ite (>= "+x.t+" 0.0) "+x.t+" (- "+x.t+"))")
		}
		if x.k == skFP {
			return sym{k: skFP, bk: x.bk, t: fr.i.pc.def(fpSort, "(fp.abs "+x.t+")")}
		}
	}
	panic(unsupported{"math.Abs"})
}

func symSqrt(fr *frame, a []value) value {
	pc := fr.i.pc
	switch x := a[0].(type) {
	case float64:
		r := math.Sqrt(x)
		if fr.i.cfg.ExactReal && !pc.concrete && x > 0 && !math.IsInf(x, 0) {
			// exact-real harnesses: an irrational (inexact) square root stays exact
			rr := new(big.Rat).SetFloat64(r)
			if new(big.Rat).Mul(rr, rr).Cmp(new(big.Rat).SetFloat64(x)) != 0 {
				return symSqrt(fr, []value{sym{k: skReal, bk: types.Float64, t: realLit(x)}})
			}
		}
		return r
	case sym:
		if x.k == skReal {
			if pc.branch("(< " + x.t + " 0.0)") {
				return math.NaN()
			}
			if pc.sqrtCache == nil {
				pc.sqrtCache = map[string]string{}
			}
			if n, ok := pc.sqrtCache[x.t]; ok && pc.merge == nil {
				return sym{k: skReal, bk: types.Float64, t: n}
			}
			n := pc.fresh_("sqrt")
			if pc.merge == nil {
				pc.sqrtCache[x.t] = n
			}
			pc.declare(n, "Real")
			pc.assert("(and (>= " + n + " 0.0) (= (* " + n + " " + n + ") " + x.t + "))")
			return sym{k: skReal, bk: types.Float64, t: n}
		}
		if x.k == skFP {
			return sym{k: skFP, bk: x.bk, t: pc.def(fpSort, "(fp.sqrt RNE "+x.t+")")}
		}
	}
	panic(unsupported{"math.Sqrt"})
}

func symFloor(fr *frame, a []value) value {
	switch x := a[0].(type) {
	case float64:
		return math.Floor(x)
	case sym:
		if x.k == skReal {
			return realUn(fr, x, "(to_real (to_int "+x.t+"))")
		}
		if x.k == skFP {
			return sym{k: skFP, bk: x.bk, t: fr.i.pc.def(fpSort, "(fp.roundToIntegral RTN "+x.t+")")}
		}
	}
	panic(unsupported{"math.Floor"})
}

func symCeil(fr *frame, a []value) value {
	switch x := a[0].(type) {
	case float64:
		return math.Ceil(x)
	case sym:
		if x.k == skReal {
			return realUn(fr, x, "(- (to_real (to_int (- "+x.t+"))))")
		}
		if x.k == skFP {
			return sym{k: skFP, bk: x.bk, t: fr.i.pc.def(fpSort, "(fp.roundToIntegral RTP "+x.t+")")}
		}
	}
	panic(unsupported{"math.Ceil"})
}

func symTrunc(fr *frame, a []value) value {
	switch x := a[0].(type) {
	case float64:
		return math.Trunc(x)
	case sym:
		if x.k == skReal {
			return realUn(fr, x, "(ite (>= "+x.t+" 0.0) (to_real (to_int "+x.t+")) (- (to_real (to_int (- "+x.t+")))))")
		}
		if x.k == skFP {
			return sym{k: skFP, bk: x.bk, t: fr.i.pc.def(fpSort, "(fp.roundToIntegral RTZ "+x.t+")")}
		}
	}
	panic(unsupported{"math.Trunc"})
}

func symRound(fr *frame, a []value) value {
	switch x := a[0].(type) {
	case float64:
		return math.Round(x)
	case sym:
		if x.k == skReal {
			// half away from zero
			return realUn(fr, x, "(ite (>= "+x.t+" 0.0) (to_real (to_int (+ "+x.t+" 0.5))) (- (to_real (to_int (+ (- "+x.t+") 0.5)))))")
		}
		if x.k == skFP {
			return sym{k: skFP, bk: x.bk, t: fr.i.pc.def(fpSort, "(fp.roundToIntegral RNA "+x.t+")")}
		}
	}
	panic(unsupported{"math.Round"})
}

func symMinMax(fr *frame, a []value, isMin bool) value {
	x, y := a[0], a[1]
	_, xs := x.(sym)
	_, ys := y.(sym)
	if !xs && !ys {
		if isMin {
			return math.Min(x.(float64), y.(float64))
		}
		return math.Max(x.(float64), y.(float64))
	}
	// non-finite constant
	if f, ok := nonFinite(x); ok {
		x, y = y, x
		_ = f
	}
	if f, ok := nonFinite(y); ok {
		if math.IsNaN(f) {
			return f
		}
		if (f > 0) == isMin {
			return x // min(x,+inf)=x ; max(x,-inf)=x
		}
		return f
	}
	var k symKind
	if s, ok := x.(sym); ok {
		k = s.k
	} else {
		k = y.(sym).k
	}
	pc := fr.i.pc
	ta, tb := termOf(x, k), termOf(y, k)
	if k == skReal {
		op := "<="
		if !isMin {
			op = ">="
		}
		return sym{k: skReal, bk: types.Float64, t: pc.def("Real", "(ite ("+op+" "+ta+" "+tb+") "+ta+" "+tb+")")}
	}
	if k == skFP {
		op := "fp.min"
		if !isMin {
			op = "fp.max"
		}
		// Go's Min/Max propagate NaN; SMT fp.min returns the other operand. Model exactly.
		t := "(ite (or (fp.isNaN " + ta + ") (fp.isNaN " + tb + ")) (_ NaN 11 53) (" + op + " " + ta + " " + tb + "))"
		pc.stats.Assumptions["math.Min/Max on IEEE values: sign of zero for min(+0,-0) follows SMT-LIB fp.min (unspecified)"] = true
		return sym{k: skFP, bk: types.Float64, t: pc.def(fpSort, t)}
	}
	panic(unsupported{"math.Min/Max"})
}

func symMin(fr *frame, a []value) value { return symMinMax(fr, a, true) }
func symMax(fr *frame, a []value) value { return symMinMax(fr, a, false) }

func symIsNaN(fr *frame, a []value) value {
	switch x := a[0].(type) {
	case float64:
		return math.IsNaN(x)
	case sym:
		if x.k == skReal {
			return false
		}
		if x.k == skFP {
			return mkBool(fr.i.pc, "(fp.isNaN "+x.t+")")
		}
	}
	panic(unsupported{"math.IsNaN"})
}

func symIsInf(fr *frame, a []value) value {
	switch x := a[0].(type) {
	case float64:
		return math.IsInf(x, int(asInt64(a[1])))
	case sym:
		if x.k == skReal {
			return false
		}
		if x.k == skFP {
			sgn := asInt64(a[1])
			t := "(fp.isInfinite " + x.t + ")"
			if sgn > 0 {
				t = "(and " + t + " (fp.isPositive " + x.t + "))"
			} else if sgn < 0 {
				t = "(and " + t + " (fp.isNegative " + x.t + "))"
			}
			return mkBool(fr.i.pc, t)
		}
	}
	panic(unsupported{"math.IsInf"})
}

func symSignbit(fr *frame, a []value) value {
	switch x := a[0].(type) {
	case float64:
		return math.Signbit(x)
	case sym:
		if x.k == skReal {
			return mkBool(fr.i.pc, "(< "+x.t+" 0.0)")
		}
		if x.k == skFP {
			return mkBool(fr.i.pc, "(fp.isNegative "+x.t+")")
		}
	}
	panic(unsupported{"math.Signbit"})
}

// Nextafter(x, +Inf) in the real model: x + eps with one shared infinitesimal 0 < eps < 2^-20.
func symNextafter(fr *frame, a []value) value {
	pc := fr.i.pc
	x, y := a[0], a[1]
	xs, ok := x.(sym)
	if !ok {
		if yf, ok := y.(float64); ok {
			return math.Nextafter(x.(float64), yf)
		}
		panic(unsupported{"Nextafter with symbolic direction"})
	}
	if xs.k != skReal {
		panic(unsupported{"Nextafter in FP model"})
	}
	yf, ok := y.(float64)
	if !ok || !math.IsInf(yf, 0) {
		panic(unsupported{"Nextafter toward a finite/symbolic value"})
	}
	if !pc.epsDeclared {
		pc.epsDeclared = true
		pc.declare("eps!", "Real")
		pc.assert("(and (> eps! 0.0) (< eps! (/ 1.0 1048576.0)))")
		pc.stats.Assumptions["math.Nextafter(x, ±Inf) modelled as x ± eps with 0 < eps < 2^-20 (real model)"] = true
	}
	op := "+"
	if yf < 0 {
		op = "-"
	}
	return sym{k: skReal, bk: types.Float64, t: pc.def("Real", "("+op+" "+xs.t+" eps!)")}
}

func symTransc(name string, f func(float64) float64) externalFn {
	return func(fr *frame, a []value) value {
		switch x := a[0].(type) {
		case float64:
			return f(x)
		case sym:
			if x.k == skReal {
				pc := fr.i.pc
				fn := "tr_" + name
				pc.declareUF(fn, 1)
				pc.stats.Assumptions["math."+name+" is an uninterpreted function (only congruence is used)"] = true
				return sym{k: skReal, bk: types.Float64, t: pc.def("Real", "("+fn+" "+x.t+")")}
			}
		}
		panic(unsupported{"math." + name + " on non-real symbolic"})
	}
}

func symTransc2(name string, f func(float64, float64) float64) externalFn {
	return func(fr *frame, a []value) value {
		_, xs := a[0].(sym)
		_, ys := a[1].(sym)
		if !xs && !ys {
			return f(a[0].(float64), a[1].(float64))
		}
		for _, v := range a[:2] {
			if nf, ok := nonFinite(v); ok {
				if math.IsNaN(nf) {
					return math.NaN()
				}
				panic(unsupported{"math." + name + " with an infinite operand in the real model"})
			}
		}
		pc := fr.i.pc
		fn := "tr_" + name
		pc.declareUF(fn, 2)
		pc.stats.Assumptions["math."+name+" is an uninterpreted function (only congruence is used)"] = true
		return sym{k: skReal, bk: types.Float64, t: pc.def("Real", "("+fn+" "+termOf(a[0], skReal)+" "+termOf(a[1], skReal)+")")}
	}
}

// ---- math/bits ----

func clzTerm(x string, w int) string {
	// nested ite over bit positions: number of leading zeros as BV of width 64 (Go int)
	t := bvLit(uint64(w), 64)
	for i := 0; i < w; i++ {
		// bit i set => clz = w-1-i, higher bits take precedence, so build from low to high
		t = fmt.Sprintf("(ite (= ((_ extract %d %d) %s) #b1) %s %s)", i, i, x, bvLit(uint64(w-1-i), 64), t)
	}
	return t
}

func ctzTerm(x string, w int) string {
	t := bvLit(uint64(w), 64)
	for i := w - 1; i >= 0; i-- {
		t = fmt.Sprintf("(ite (= ((_ extract %d %d) %s) #b1) %s %s)", i, i, x, bvLit(uint64(i), 64), t)
	}
	return t
}

func symLeadingZeros32(fr *frame, a []value) value {
	switch x := a[0].(type) {
	case uint32:
		return bits.LeadingZeros32(x)
	case sym:
		return sym{k: skBV, bk: types.Int, t: fr.i.pc.def(bvSort(64), clzTerm(x.t, 32))}
	}
	panic("LeadingZeros32")
}

func symLeadingZeros64(fr *frame, a []value) value {
	switch x := a[0].(type) {
	case uint64:
		return bits.LeadingZeros64(x)
	case sym:
		return sym{k: skBV, bk: types.Int, t: fr.i.pc.def(bvSort(64), clzTerm(x.t, 64))}
	}
	panic("LeadingZeros64")
}

func symTrailingZeros32(fr *frame, a []value) value {
	switch x := a[0].(type) {
	case uint32:
		return bits.TrailingZeros32(x)
	case sym:
		return sym{k: skBV, bk: types.Int, t: fr.i.pc.def(bvSort(64), ctzTerm(x.t, 32))}
	}
	panic("TrailingZeros32")
}

func symLen32(fr *frame, a []value) value {
	switch x := a[0].(type) {
	case uint32:
		return bits.Len32(x)
	case sym:
		return sym{k: skBV, bk: types.Int, t: fr.i.pc.def(bvSort(64), "(bvsub "+bvLit(32, 64)+" "+clzTerm(x.t, 32)+")")}
	}
	panic("Len32")
}

func symLen64(fr *frame, a []value) value {
	switch x := a[0].(type) {
	case uint64:
		return bits.Len64(x)
	case sym:
		return sym{k: skBV, bk: types.Int, t: fr.i.pc.def(bvSort(64), "(bvsub "+bvLit(64, 64)+" "+clzTerm(x.t, 64)+")")}
	}
	panic("Len64")
}

// ---- fmt stubs ----

func (i *interpreter) newError(msg string) value {
	// &errors.errorString{msg}
	var cell value = structure{msg}
	return iface{t: i.errorStringPtr, v: &cell}
}

func fmtArgsText(a value) string {
	// best-effort text of the format and args (concrete parts only)
	s, _ := a.(string)
	return s
}

func stubErrorf(fr *frame, a []value) value {
	msg := "fmt.Errorf:" + fmtArgsText(a[0])
	// preserve %w wrapping target text when an error argument is present
	if args, ok := a[1].([]value); ok {
		for _, x := range args {
			if e, ok := x.(iface); ok && e.t != nil {
				if p, ok := e.v.(*value); ok && p != nil {
					if st, ok := (*p).(structure); ok && len(st) == 1 {
						if s, ok := st[0].(string); ok {
							msg += "|" + s
						}
					}
				}
			}
		}
	}
	return fr.i.newError(msg)
}

func nativeArgs(a value) ([]interface{}, bool) {
	args, ok := a.([]value)
	if !ok {
		return nil, true
	}
	var out []interface{}
	for _, x := range args {
		if e, ok := x.(iface); ok {
			switch v := e.v.(type) {
			case bool, int, int8, int16, int32, int64, uint, uint8, uint16, uint32, uint64, uintptr, float32, float64, string:
				out = append(out, v)
				continue
			case nil:
				out = append(out, nil)
				continue
			}
			if containsSym(e.v) {
				return nil, false
			}
			out = append(out, toString(e.v))
			continue
		}
		return nil, false
	}
	return out, true
}

func stubSprintf(fr *frame, a []value) value {
	if s, ok := a[0].(string); ok {
		if len(a) > 1 {
			if args, ok := nativeArgs(a[1]); ok {
				return fmt.Sprintf(s, args...)
			}
		}
		return "fmt.Sprintf:" + s
	}
	return "fmt.Sprint"
}

// fmt.Fprintf(w, format, args...): formats natively when every operand is concrete, otherwise
// writes the format string with %-verbs replaced by an opaque token; the text is handed to the
// real w.Write.
func stubFprintf(fr *frame, a []value) value {
	format, _ := a[1].(string)
	text := ""
	if args, ok := nativeArgs(a[2]); ok {
		text = fmt.Sprintf(format, args...)
	} else if bs, ok := formatWithTokens(fr, format, a[2]); ok {
		w := a[0].(iface)
		if w.t == nil {
			panic(goPanic{"invalid memory address or nil pointer dereference (nil io.Writer)"})
		}
		return callWrite(fr, w, bs)
	} else {
		text = strings.NewReplacer("%g", "<num>", "%v", "<v>", "%d", "<int>", "%s", "<s>").Replace(format)
		fr.i.pc.stats.Assumptions["fmt.Fprintf with symbolic operands writes an opaque token per verb"] = true
	}
	w := a[0].(iface)
	if w.t == nil {
		panic(goPanic{"invalid memory address or nil pointer dereference (nil io.Writer)"})
	}
	return callWrite(fr, w, toSymString(text).b)
}

// formatWithTokens expands a format that only uses %g verbs with number-token operands.
func formatWithTokens(fr *frame, format string, args value) ([]value, bool) {
	pc := fr.i.pc
	av, ok := args.([]value)
	if !ok {
		return nil, false
	}
	var out []value
	ai := 0
	for i := 0; i < len(format); i++ {
		if format[i] == '%' && i+1 < len(format) && format[i+1] == 'g' {
			if ai >= len(av) {
				return nil, false
			}
			e, ok := av[ai].(iface)
			ai++
			if !ok {
				return nil, false
			}
			switch v := e.v.(type) {
			case float64:
				out = append(out, toSymString(strconv.FormatFloat(v, 'g', -1, 64)).b...)
			case sym:
				found := false
				for _, tk := range pc.numTokens {
					if tk.val.t == v.t {
						out = append(out, tk.bytes...)
						found = true
						break
					}
				}
				if !found {
					return nil, false
				}
			default:
				return nil, false
			}
			i++
			continue
		}
		if format[i] == '%' {
			return nil, false
		}
		out = append(out, format[i])
	}
	return out, true
}

func callWrite(fr *frame, w iface, b []value) value {
	var meth *types.Func
	ms := fr.i.prog.MethodSets.MethodSet(w.t)
	for k := 0; k < ms.Len(); k++ {
		if ms.At(k).Obj().Name() == "Write" {
			meth = ms.At(k).Obj().(*types.Func)
		}
	}
	if meth == nil {
		panic(unsupported{"Fprintf: writer without Write"})
	}
	fn := lookupMethod(fr.i, w.t, meth)
	res := call(fr.i, fr, token.NoPos, fn, []value{w.v, b})
	return res
}

// ---- bytealg ----

func extIndexByte(fr *frame, a []value) value {
	b := a[0].([]value)
	c := a[1]
	for i := range b {
		e := binopS(fr, token.EQL, types.Typ[types.Uint8], b[i], c)
		switch ev := e.(type) {
		case bool:
			if ev {
				return i
			}
		case sym:
			if fr.i.pc.branch(ev.t) {
				return i
			}
		}
	}
	return -1
}

func extIndexByteString(fr *frame, a []value) value {
	s := toSymString(a[0])
	return extIndexByte(fr, []value{s.b, a[1]})
}

func extBytesEqual(fr *frame, a []value) value {
	x, y := a[0].([]value), a[1].([]value)
	return symStringBinop(fr, token.EQL, symString{x}, symString{y})
}

func extMakeNoZero(fr *frame, a []value) value {
	n := int(asInt64(a[0]))
	s := make([]value, n)
	for i := range s {
		s[i] = uint8(0)
	}
	fr.i.pc.markFreshSlice(s)
	return s
}

func extCount(fr *frame, a []value) value {
	b := a[0].([]value)
	n := 0
	for i := range b {
		e := binopS(fr, token.EQL, types.Typ[types.Uint8], b[i], a[1])
		switch ev := e.(type) {
		case bool:
			if ev {
				n++
			}
		case sym:
			if fr.i.pc.branch(ev.t) {
				n++
			}
		}
	}
	return n
}

func extCountString(fr *frame, a []value) value {
	return extCount(fr, []value{toSymString(a[0]).b, a[1]})
}
