package interp

// Pure-callee summaries: all paths of a designated side-effect-free function are explored
// locally and its result is merged into one ITE term instead of forking the caller's path.

import (
	"go/token"
	"go/types"

	"golang.org/x/tools/go/ssa"
)

type mergeAbort struct{ why string }

func callMerged(i *interpreter, caller *frame, callpos token.Pos, fn *ssa.Function, args []value, env []value) (res value, ok bool) {
	pc := i.pc
	anySym := false
	for _, a := range args {
		if containsSym(a) {
			anySym = true
			break
		}
	}
	if !anySym {
		return nil, false
	}
	type outcome struct {
		cond string
		val  value
	}
	var outs []outcome
	pending := [][]int64{nil}
	outer := pc.merge
	savedNondets := len(pc.nondets)
	defer func() { pc.merge = outer }()
	aborted := false
	for len(pending) > 0 && !aborted {
		prefix := pending[len(pending)-1]
		pending = pending[:len(pending)-1]
		m := &mergeCtx{prefix: prefix, outer: outer}
		pc.merge = m
		var val value
		func() {
			defer func() {
				if r := recover(); r != nil {
					if _, isEnd := r.(pathEnd); isEnd {
						panic(r)
					}
					if _, isUns := r.(unsupported); isUns {
						panic(r)
					}
					if _, isEng := r.(engineError); isEng {
						panic(r)
					}
					aborted = true
				}
			}()
			i.noMerge = false
			// copy args: aggregates must not be shared between sub-paths
			cargs := make([]value, len(args))
			for k := range args {
				cargs[k] = copyVal(args[k])
			}
			i.depth++
			val = callSSABody(i, caller, callpos, fn, cargs, env)
			i.depth--
		}()
		if aborted {
			break
		}
		outs = append(outs, outcome{conj(m.conds), val})
		pending = append(pending, m.pending...)
		if len(outs) > 4096 {
			aborted = true
		}
	}
	pc.merge = outer
	if aborted || len(pc.nondets) != savedNondets {
		return nil, false
	}
	if len(outs) == 1 {
		return outs[0].val, true
	}
	// merge: ite(c1, v1, ite(c2, v2, ... vn))
	acc := outs[len(outs)-1].val
	for k := len(outs) - 2; k >= 0; k-- {
		var okm bool
		acc, okm = mergeValues(pc, outs[k].cond, outs[k].val, acc)
		if !okm {
			return nil, false
		}
	}
	pc.stats.StubsHit["summary:"+fn.String()]++
	return acc, true
}

func mergeValues(pc *pathCtx, cond string, a, b value) (value, bool) {
	switch av := a.(type) {
	case structure:
		bv, ok := b.(structure)
		if !ok || len(av) != len(bv) {
			return nil, false
		}
		out := make(structure, len(av))
		for i := range av {
			m, ok := mergeValues(pc, cond, av[i], bv[i])
			if !ok {
				return nil, false
			}
			out[i] = m
		}
		return out, true
	case array:
		bv, ok := b.(array)
		if !ok || len(av) != len(bv) {
			return nil, false
		}
		out := make(array, len(av))
		for i := range av {
			m, ok := mergeValues(pc, cond, av[i], bv[i])
			if !ok {
				return nil, false
			}
			out[i] = m
		}
		return out, true
	case tuple:
		bv, ok := b.(tuple)
		if !ok || len(av) != len(bv) {
			return nil, false
		}
		out := make(tuple, len(av))
		for i := range av {
			m, ok := mergeValues(pc, cond, av[i], bv[i])
			if !ok {
				return nil, false
			}
			out[i] = m
		}
		return out, true
	}
	as, aok := a.(sym)
	bs, bok := b.(sym)
	if !aok && !bok {
		// both concrete
		if bkOfValue(a) == 0 || bkOfValue(a) != bkOfValue(b) {
			if a == nil && b == nil {
				return nil, true
			}
			return nil, false
		}
		if a == b {
			return a, true
		}
	}
	var k symKind
	switch {
	case aok:
		k = as.k
	case bok:
		k = bs.k
	default:
		switch a.(type) {
		case bool:
			k = skBool
		case float64:
			if _, nf := nonFinite(a); nf {
				return nil, false
			}
			if _, nf := nonFinite(b); nf {
				return nil, false
			}
			k = skReal
			if pc.floatFP {
				k = skFP
			}
		default:
			k = skBV
		}
	}
	if _, nf := nonFinite(a); nf {
		return nil, false
	}
	if _, nf := nonFinite(b); nf {
		return nil, false
	}
	r := sym{k: k, bk: bkOfValue(a)}
	if aok {
		r.bk = as.bk
	} else if bok {
		r.bk = bs.bk
	}
	ta, tb := termOf(a, k), termOf(b, k)
	if ta == tb {
		return a, true
	}
	if k == skBool {
		return mkBool(pc, "(ite "+cond+" "+ta+" "+tb+")"), true
	}
	r.t = pc.def(r.sort(), "(ite "+cond+" "+ta+" "+tb+")")
	return r, true
}

// callAsUF replaces a float-valued pure function by an uninterpreted function of all scalar
// leaves of its arguments (floats and integers). Used to prove structural properties for every
// interpretation of a numeric kernel.
func callAsUF(i *interpreter, fn *ssa.Function, args []value) (value, bool) {
	pc := i.pc
	var leaves []string
	anySym := false
	var walk func(v value) bool
	walk = func(v value) bool {
		switch x := v.(type) {
		case sym:
			if x.k != skReal {
				return false
			}
			anySym = true
			leaves = append(leaves, x.t)
		case float64:
			if _, nf := nonFinite(x); nf {
				return false
			}
			leaves = append(leaves, realLit(x))
		case int:
			leaves = append(leaves, realLit(float64(x)))
		case array:
			for _, e := range x {
				if !walk(e) {
					return false
				}
			}
		case structure:
			for _, e := range x {
				if !walk(e) {
					return false
				}
			}
		case []value:
			for _, e := range x {
				if !walk(e) {
					return false
				}
			}
		default:
			return false
		}
		return true
	}
	for _, a := range args {
		if !walk(a) {
			return nil, false
		}
	}
	if !anySym {
		return nil, false
	}
	name := "uf_" + smtName(fn.Name())
	pc.declareUF(name, len(leaves))
	pc.stats.StubsHit["uninterpreted:"+fn.String()]++
	t := "(" + name
	for _, l := range leaves {
		t += " " + l
	}
	t += ")"
	return sym{k: skReal, bk: types.Float64, t: pc.def("Real", t)}, true
}
