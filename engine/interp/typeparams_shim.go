package interp

import (
	"fmt"
	"go/types"
)

// mustDeref replaces golang.org/x/tools/internal/mustDeref.
func mustDeref(t types.Type) types.Type {
	if p, ok := t.Underlying().(*types.Pointer); ok {
		return p.Elem()
	}
	if tp, ok := t.(*types.TypeParam); ok {
		_ = tp
	}
	panic(fmt.Sprintf("mustDeref: %v is not a pointer", t))
}
