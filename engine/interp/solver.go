package interp

// SMT solver process wrapper: one long-lived `z3 -in` (or cvc5) per worker,
// SMT-LIB2 text over pipes, push/pop scopes, external watchdog.

import (
	"bufio"
	"fmt"
	"io"
	"os"
	"os/exec"
	"strings"
	"sync/atomic"
	"time"
)

type SolverStats struct {
	Queries  int64
	Sat      int64
	Unsat    int64
	Unknown  int64
	Restarts int64
	Nanos    int64
}

func (s *SolverStats) Add(o *SolverStats) {
	s.Queries += o.Queries
	s.Sat += o.Sat
	s.Unsat += o.Unsat
	s.Unknown += o.Unknown
	s.Restarts += o.Restarts
	s.Nanos += o.Nanos
}

type Solver struct {
	Bin       string   // "z3", "z3-new", "cvc5"
	args      []string // arguments
	TimeoutMs int
	cmd       *exec.Cmd
	in        io.WriteCloser
	out       *bufio.Reader
	// log of everything sent inside the current outermost scope (for restart)
	scopeLog []string
	marks    []int
	depth    int
	Stats    SolverStats
	Trace    io.Writer
	dead     bool
}

func NewSolver(bin string, timeoutMs int) (*Solver, error) {
	s := &Solver{Bin: bin, TimeoutMs: timeoutMs}
	switch bin {
	case "cvc5":
		s.args = []string{"--incremental", "--lang=smt2", "--produce-models", fmt.Sprintf("--tlimit-per=%d", timeoutMs)}
	default:
		s.args = []string{"-in", "-smt2"}
	}
	if err := s.start(); err != nil {
		return nil, err
	}
	return s, nil
}

func (s *Solver) start() error {
	cmd := exec.Command(s.Bin, s.args...)
	in, err := cmd.StdinPipe()
	if err != nil {
		return err
	}
	out, err := cmd.StdoutPipe()
	if err != nil {
		return err
	}
	cmd.Stderr = os.Stderr
	if err := cmd.Start(); err != nil {
		return err
	}
	s.cmd, s.in, s.out = cmd, in, bufio.NewReaderSize(out, 1<<16)
	s.dead = false
	if s.Bin != "cvc5" {
		s.raw("(set-option :produce-models true)")
		s.raw(fmt.Sprintf("(set-option :timeout %d)", s.TimeoutMs))
		s.raw("(set-option :pp.decimal false)")
	} else {
		s.raw("(set-logic ALL)")
	}
	return nil
}

func (s *Solver) Close() {
	if s.cmd != nil && s.cmd.Process != nil {
		s.in.Close()
		s.cmd.Process.Kill()
		s.cmd.Wait()
	}
}

func (s *Solver) raw(line string) {
	if s.Trace != nil {
		fmt.Fprintln(s.Trace, line)
	}
	io.WriteString(s.in, line)
	io.WriteString(s.in, "\n")
}

// Send sends a command that produces no output (assert, define-fun, declare-*).
func (s *Solver) Send(line string) {
	if s.depth > 0 {
		s.scopeLog = append(s.scopeLog, line)
	}
	s.raw(line)
}

func (s *Solver) Push() {
	s.depth++
	s.marks = append(s.marks, len(s.scopeLog))
	s.Send("(push 1)")
}

func (s *Solver) Pop() {
	s.raw("(pop 1)")
	s.depth--
	m := s.marks[len(s.marks)-1]
	s.marks = s.marks[:len(s.marks)-1]
	s.scopeLog = s.scopeLog[:m]
}

// Reset drops all scopes (used between paths).
func (s *Solver) Reset() {
	for s.depth > 0 {
		s.Pop()
	}
}

func (s *Solver) restart() {
	atomic.AddInt64(&s.Stats.Restarts, 1)
	s.Close()
	if err := s.start(); err != nil {
		panic(engineError{"solver restart failed: " + err.Error()})
	}
	for _, l := range s.scopeLog {
		s.raw(l)
	}
}

// readSexp reads one balanced s-expression (or atom line) from the solver with a deadline.
func (s *Solver) readResp(deadline time.Duration) (string, bool) {
	type res struct {
		s  string
		ok bool
	}
	ch := make(chan res, 1)
	go func() {
		var sb strings.Builder
		depth := 0
		started := false
		for {
			line, err := s.out.ReadString('\n')
			if err != nil {
				ch <- res{sb.String(), false}
				return
			}
			inStr := false
			for _, c := range line {
				switch {
				case c == '"':
					inStr = !inStr
				case inStr:
				case c == '(':
					depth++
					started = true
				case c == ')':
					depth--
				}
			}
			sb.WriteString(line)
			if strings.TrimSpace(line) != "" {
				started = true
			}
			if started && depth <= 0 {
				ch <- res{strings.TrimSpace(sb.String()), true}
				return
			}
		}
	}()
	select {
	case r := <-ch:
		return r.s, r.ok
	case <-time.After(deadline):
		return "", false
	}
}

// Check runs (check-sat) in the current context; returns "sat", "unsat" or "unknown".
func (s *Solver) Check() string {
	t0 := time.Now()
	s.raw("(check-sat)")
	resp, ok := s.readResp(time.Duration(s.TimeoutMs)*time.Millisecond + 2500*time.Millisecond)
	s.Stats.Nanos += int64(time.Since(t0))
	s.Stats.Queries++
	if !ok {
		// hard overrun or dead process: restart and replay scope
		s.restart()
		s.Stats.Unknown++
		return "unknown"
	}
	switch {
	case resp == "sat":
		s.Stats.Sat++
		return "sat"
	case resp == "unsat":
		s.Stats.Unsat++
		return "unsat"
	case strings.Contains(resp, "(error"):
		panic(engineError{"solver error: " + resp + "\n last lines: " + strings.Join(tail(s.scopeLog, 5), "\n")})
	default:
		s.Stats.Unknown++
		return "unknown"
	}
}

func tail(l []string, n int) []string {
	if len(l) > n {
		return l[len(l)-n:]
	}
	return l
}

// CheckAssuming checks the current context plus one extra formula.
func (s *Solver) CheckWith(formula string) string {
	s.Push()
	s.Send("(assert " + formula + ")")
	r := s.Check()
	s.Pop()
	return r
}

// GetValues returns raw model values for the given terms (after a sat Check in the same scope).
func (s *Solver) GetValues(terms []string) (map[string]string, error) {
	out := make(map[string]string)
	for _, t := range terms {
		s.raw("(get-value (" + t + "))")
		resp, ok := s.readResp(20 * time.Second)
		if !ok {
			return out, fmt.Errorf("get-value timeout")
		}
		if strings.Contains(resp, "(error") {
			return out, fmt.Errorf("get-value: %s", resp)
		}
		// resp = ((t value))
		r := strings.TrimSpace(resp)
		r = strings.TrimPrefix(r, "((")
		r = strings.TrimSuffix(r, "))")
		r = strings.TrimSpace(r)
		if strings.HasPrefix(r, t) {
			r = strings.TrimSpace(r[len(t):])
		}
		out[t] = r
	}
	return out, nil
}

type engineError struct{ msg string }

func (e engineError) Error() string { return e.msg }

// RetryElsewhere replays the whole current context in a fresh process of another solver and
// checks it once (used when the primary solver answers unknown on a property obligation).
func (s *Solver) RetryElsewhere(bin string, nondets []NondetVar) (string, map[string]string) {
	alt, err := NewSolver(bin, 3*s.TimeoutMs)
	if err != nil {
		return "unknown", nil
	}
	defer alt.Close()
	for _, l := range s.scopeLog {
		if strings.HasPrefix(l, "(push") || strings.HasPrefix(l, "(pop") {
			alt.raw(l)
			continue
		}
		alt.raw(l)
	}
	func() {
		defer func() { recover() }()
	}()
	var r string
	func() {
		defer func() {
			if e := recover(); e != nil {
				r = "unknown"
			}
		}()
		r = alt.Check()
	}()
	var model map[string]string
	if r == "sat" {
		terms := make([]string, 0, len(nondets))
		for _, n := range nondets {
			terms = append(terms, n.Term)
		}
		vals, _ := alt.GetValues(terms)
		model = map[string]string{}
		for _, n := range nondets {
			if v, ok := vals[n.Term]; ok {
				model[n.Name] = v
			}
		}
	}
	return r, model
}

// CheckTactic runs (check-sat-using tactic) in the current context; errors count as unknown.
func (s *Solver) CheckTactic(tactic string) string {
	if s.Bin == "cvc5" {
		return "unknown"
	}
	t0 := time.Now()
	s.raw("(check-sat-using " + tactic + ")")
	resp, ok := s.readResp(time.Duration(s.TimeoutMs)*3*time.Millisecond + 8*time.Second)
	s.Stats.Nanos += int64(time.Since(t0))
	s.Stats.Queries++
	if !ok {
		s.restart()
		s.Stats.Unknown++
		return "unknown"
	}
	switch resp {
	case "sat":
		s.Stats.Sat++
		return "sat"
	case "unsat":
		s.Stats.Unsat++
		return "unsat"
	}
	s.Stats.Unknown++
	return "unknown"
}

// SetTimeout changes the per-query timeout (z3 only; cvc5 uses its start-up value).
func (s *Solver) SetTimeout(ms int) {
	if ms == s.TimeoutMs || ms <= 0 {
		return
	}
	s.TimeoutMs = ms
	if s.Bin != "cvc5" {
		s.raw(fmt.Sprintf("(set-option :timeout %d)", ms))
	}
}

// Recycle replaces the solver process by a fresh one (only between paths, at scope depth 0).
func (s *Solver) Recycle() {
	if s.depth != 0 {
		return
	}
	s.Close()
	if err := s.start(); err != nil {
		panic(engineError{"solver recycle failed: " + err.Error()})
	}
}
